#!/usr/bin/env python3
"""Python-binding stage (thorough tiers of C19 / C20): runs inside a fresh python3 with the freshly built extension
module on sys.path. Reads JSON lines {source, sql} on stdin, pushes every program through CelProgram.serialize_to_json /
serialize_to_bincode and add_serialized_json / add_serialized_bincode, compares the outcome of the revived programs with
the original (repr of the Python value or the exception class), and compares rscel.to_sql with the SQL the Rust harness saw.
Prints one JSON summary line."""
import json, sys
import rscel

def canon(v):
    # map iteration order is not part of a value
    if isinstance(v, dict):
        return "{" + ", ".join("%r: %s" % (k, canon(v[k])) for k in sorted(v)) + "}"
    if isinstance(v, (list, tuple)):
        return "[" + ", ".join(canon(x) for x in v) + "]"
    return repr(v)


def run(prog):
    ctx = rscel.CelContext()
    ctx.add_program("main", prog)
    try:
        return ("val", canon(ctx.exec("main", rscel.BindContext())))
    except BaseException as e:  # noqa
        return ("err", type(e).__name__)

res = {"programs": 0, "json_roundtrips": 0, "bincode_roundtrips": 0, "sql_compared": 0, "violations": []}
for line in sys.stdin:
    rec = json.loads(line)
    src = rec["source"]
    p = rscel.CelProgram()
    try:
        p.add_source(src)
    except BaseException:
        continue
    res["programs"] += 1
    base = run(p)
    for fmt in ("json", "bincode"):
        try:
            blob = p.serialize_to_json() if fmt == "json" else bytes(p.serialize_to_bincode())
        except BaseException as e:
            res["violations"].append({"sig": "binding|%s|serialize-fails" % fmt, "source": src, "detail": str(e)[:200]})
            continue
        q = rscel.CelProgram()
        try:
            (q.add_serialized_json if fmt == "json" else q.add_serialized_bincode)(blob)
        except BaseException as e:
            res["violations"].append({"sig": "binding|%s|deserialize-fails" % fmt, "source": src, "detail": str(e)[:200]})
            continue
        res["%s_roundtrips" % fmt] += 1
        got = run(q)
        # NaN != NaN in python reprs is fine (repr is textual)
        if got != base:
            res["violations"].append({"sig": "binding|%s|behaviour-differs" % fmt, "source": src, "detail": "%r vs %r" % (base, got)})
    if rec.get("sql") is not None:
        try:
            sql = rscel.to_sql(src)
        except BaseException as e:
            sql = None
        res["sql_compared"] += 1
        if sql != rec["sql"]:
            res["violations"].append({"sig": "binding|to_sql|differs-from-rust", "source": src, "detail": "%r vs %r" % (sql, rec["sql"])})
res["violations"] = res["violations"][:20]
print("BINDING " + json.dumps(res))
