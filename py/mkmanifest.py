#!/usr/bin/env python3
"""Regenerate /verif/MANIFEST.json from py/stages.py (single source of truth for what is claimed)."""
import json, os, sys
ROOT = os.path.dirname(os.path.dirname(os.path.abspath(__file__)))
sys.path.insert(0, os.path.join(ROOT, "py"))
import stages

props = [json.loads(l) for l in open(os.path.join(ROOT, "properties.jsonl"))]
hook_commits = [l.strip() for l in open(os.path.join(ROOT, "py", "hook_commits.txt")) if l.strip()]

checks, na = [], []
for p in props:
    pid = p["id"]
    cfg = stages.CONFIG.get(pid)
    if not cfg or not cfg.get("claimed", True):
        na.append({"property_id": pid, "reason": (cfg or {}).get("na_reason", "monitor not built yet (planned, DESIGN.md section 6)")})
        continue
    checks.append({
        "property_id": pid,
        "quick_cmd": "./check %s --tier quick" % pid,
        "thorough_cmd": "./check %s --tier thorough" % pid,
        "evidence_file": "evidence/%s.json" % pid,
        "replay_cmd_template": "./check %s --replay {path}" % pid,
        "engine": "rvmon",
        "level_claimed": {"category": "exploration", "text": cfg["level_text"], "design_ref": "DESIGN.md section 6, %s" % pid},
        "level_note": cfg["level_note"],
        "technique": cfg["technique"],
    })

m = {
    "version": 1,
    "setup_cmd": "./setup.sh",
    "hooks": {
        "guard": "rscel_verif",
        "enable": "RUSTFLAGS='--cfg rscel_verif' (set in /verif/harness/.cargo/config.toml; harness depends on /repo/rscel by path)",
        "baseline_off_cmd": "cd /repo && cargo test --workspace --no-fail-fast --offline",
        "source_commits": hook_commits,
        "add_only": True,
    },
    "engines": [{
        "name": "rvmon", "path": "harness/", "serves_properties": [c["property_id"] for c in checks],
        "kind_free_text": "Rust worker linked against /repo (path dependency, rebuilt before every check) that generates seeded and exhaustive workloads, "
                          "runs them through the public API under two arithmetic profiles, observes outcomes / hook events / call logs and decides each property "
                          "with reference-model, algebraic-law and metamorphic oracles; python driver ./check shards it over the cores, triages crashes via a journal, "
                          "applies known_findings.json and writes evidence",
    }],
    "checks": checks,
    "notes": "runtime monitoring only; every verdict is 'held on the executions observed'. exit 2 + INCONCLUSIVE when the machinery could not observe enough.",
    "not_applicable": na,
}
json.dump(m, open(os.path.join(ROOT, "MANIFEST.json"), "w"), indent=1)
print("claimed:", [c["property_id"] for c in checks])
