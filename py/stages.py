"""Per-property configuration of the driver: build profiles per tier, observation floors,
non-triviality rule text, assumptions, driver-side post stages."""

ASSUME_COMMON = [
    "default feature set of rscel (type_prop, neg_index, protobuf); protobuf-backed values are not generated",
    "verdict covers only the executions produced in this run (runtime monitoring, no proof)",
    "harness linked against /repo by path and rebuilt before the run, hooks enabled with --cfg rscel_verif",
]

BOTH = {"quick": ["mon-chk"], "thorough": ["mon-chk", "mon-rel"]}
ALWAYS_BOTH = {"quick": ["mon-chk", "mon-rel"], "thorough": ["mon-chk", "mon-rel"]}


def profile_diff(c):
    """Cross-profile comparison: every case's outcome digest (values bit-exact, all errors one class)
    must be the same in the overflow-checking build and in the release-like build."""
    import glob, os
    per = {}
    for prof in ("mon-chk", "mon-rel"):
        d = {}
        for f in glob.glob(os.path.join(c["wdir"], "digest-%s-*.txt" % prof)):
            for line in open(f):
                parts = line.split()
                if len(parts) == 3:
                    d[(parts[0], parts[1])] = parts[2]
        per[prof] = d
    a, b = per["mon-chk"], per["mon-rel"]
    common = set(a) & set(b)
    diff = sorted(k for k in common if a[k] != b[k])
    c["extra_cov"]["profile_diff"] = {"cases_compared": len(common), "cases_differing": len(diff),
                                      "only_in_one_profile": len(set(a) ^ set(b))}
    c["counters"]["profile_cases_compared"] = len(common)
    for (o, i) in diff[:5]:
        sig = "profile-diff|stage=%s" % o
        c["viol_counts"][sig] = c["viol_counts"].get(sig, 0) + 1
        if sig not in c["viols"]:
            c["viols"][sig] = {"sig": sig, "detail": "outcome digest of case %s:%s differs between mon-chk (overflow-checks on) and mon-rel (off)" % (o, i),
                               "stage": "%s:?" % o, "idx": int(i), "case": {"stage_ord": o, "idx": i}, "profile": "mon-rel"}

def _run(cmd, cwd, env_extra, timeout):
    import subprocess, os
    env = dict(os.environ, CARGO_NET_OFFLINE="true")
    env.update(env_extra)
    try:
        p = subprocess.run(cmd, cwd=cwd, env=env, stdout=subprocess.PIPE, stderr=subprocess.STDOUT, text=True, timeout=timeout)
        return p.returncode, p.stdout
    except subprocess.TimeoutExpired as e:
        return None, (e.stdout or "") if isinstance(e.stdout, str) else ""
    except Exception as e:  # tool missing etc.
        return None, str(e)


def miri_stage(c):
    """Thorough only, evidence only: a miniature of the workload under Miri (UB / data-race interpreter over the
    dependency code rscel reaches: hashbrown, regex, chrono, serde). rscel has no unsafe code, so a Miri report is a
    SANITIZER-NOTE, never a property violation; a Miri that cannot run is recorded as skipped."""
    import os, time
    if c["tier"] != "thorough":
        return
    t0 = time.time()
    harness = os.path.join(c["root"], "harness")
    env = {"MIRIFLAGS": "-Zmiri-disable-isolation", "RUSTFLAGS": "--cfg rscel_verif"}
    # slice 0 alone first (it also builds the interpreter's sysroot and the harness), then the other slices in parallel
    nslices = 14
    rc, out = _run(["cargo", "+nightly", "miri", "run", "--offline", "--", "smoke", "20", "2", "16", "0"], harness, env, 3000)
    outs = [(rc, out)]
    if rc == 0:
        import subprocess
        e2 = dict(os.environ)
        e2.update(env)
        procs = [subprocess.Popen(["cargo", "+nightly", "miri", "run", "--offline", "--", "smoke", "20", "2", "16", str(k)], cwd=harness, env=e2,
                                  stdout=subprocess.PIPE, stderr=subprocess.STDOUT, text=True) for k in range(1, nslices)]
        for p in procs:
            try:
                o, _ = p.communicate(timeout=3000)
                outs.append((p.returncode, o))
            except subprocess.TimeoutExpired:
                p.kill()
                outs.append((-9, "timeout"))
    allout = "\n".join(o for _, o in outs)
    lines = [l for l in allout.splitlines() if l.startswith("SMOKE ")]
    rec = {"ran": bool(lines), "processes": len(outs), "exits": [r for r, _ in outs], "wall_s": round(time.time() - t0, 1), "observed": lines,
           "undefined_behaviour_reports": allout.count("Undefined Behavior"), "data_race_reports": allout.count("Data race detected")}
    if not lines:
        rec["skipped_reason"] = allout[-400:]
    c["extra_cov"]["miri"] = rec
    if rec["undefined_behaviour_reports"] or rec["data_race_reports"]:
        c["notes"].append({"t": "note", "kind": "SANITIZER-NOTE", "text": "Miri: " + allout[-1500:]})


def asan_stage(c):
    """Thorough only, evidence only: one 64th of the C01 workload (grammar, mutation, ladders) under AddressSanitizer.
    ASan frames are several times larger (the depth ladders overflow a 2 MiB thread under ASan although the native build
    has room to spare), so spawned threads get 32 MiB here: stack depth is decided by the native builds, this stage looks at
    heap reports only. Reports are notes."""
    import os, time, glob
    if c["tier"] != "thorough":
        return
    t0 = time.time()
    harness = os.path.join(c["root"], "harness")
    tdir = os.path.join(harness, "target-asan")
    flags = "-Zsanitizer=address -Cforce-frame-pointers=yes --cfg rscel_verif"
    rc, out = _run(["cargo", "build", "--offline", "--profile", "mon-rel", "--target", "x86_64-unknown-linux-gnu", "--target-dir", tdir, "--quiet"],
                   harness, {"RUSTFLAGS": flags}, 1800)
    binary = os.path.join(tdir, "x86_64-unknown-linux-gnu", "mon-rel", "rvmon")
    rec = {"built": rc == 0 and os.path.exists(binary)}
    if not rec["built"]:
        rec["skipped_reason"] = out[-400:]
        c["extra_cov"]["asan"] = rec
        return
    outp = os.path.join(c["wdir"], "asan.jsonl")
    rc, out = _run([binary, "run", "C01", "--seed", str(c["seed"]), "--tier", "quick", "--shard", "5/64", "--out", outp],
                   c["wdir"], {"ASAN_OPTIONS": "detect_leaks=0:halt_on_error=1:abort_on_error=0", "RUST_MIN_STACK": str(32 << 20)}, 1800)
    evals = 0
    try:
        import json
        for line in open(outp):
            r = json.loads(line)
            if r.get("t") == "stat":
                evals += r["evaluations"]
    except Exception:
        pass
    reports = out.count("ERROR: AddressSanitizer")
    rec.update({"exit": rc, "evaluations": evals, "asan_reports": reports, "wall_s": round(time.time() - t0, 1)})
    c["extra_cov"]["asan"] = rec
    if reports:
        c["notes"].append({"t": "note", "kind": "SANITIZER-NOTE", "text": "ASan: " + out[-1500:]})


def python_binding_stage(c):
    """Thorough only: build the Python extension from /repo, push programs through its serialisation entry points and
    to_sql. A module that cannot be built or imported marks the stage skipped (never a violation)."""
    import os, time, shutil, subprocess, json
    if c["tier"] != "thorough":
        return
    t0 = time.time()
    tdir = os.path.join(c["root"], "harness", "target-py")
    rc, out = _run(["cargo", "build", "--offline", "--quiet", "-p", "rscel_python", "--target-dir", tdir], "/repo", {}, 1800)
    so = os.path.join(tdir, "debug", "librscel.so")
    rec = {"built": rc == 0 and os.path.exists(so)}
    if not rec["built"]:
        rec["skipped_reason"] = out[-400:]
        c["extra_cov"]["python_binding"] = rec
        return
    moddir = os.path.join(c["wdir"], "pymod")
    os.makedirs(moddir, exist_ok=True)
    shutil.copy(so, os.path.join(moddir, "rscel.so"))
    worker = list(c["builds"].values())[0]
    try:
        srcs = subprocess.run([worker, "sources", "2000", str(c["seed"])], stdout=subprocess.PIPE, text=True, timeout=600).stdout
        p = subprocess.run(["python3", os.path.join(c["root"], "py", "binding_stage.py")], input=srcs, stdout=subprocess.PIPE, stderr=subprocess.PIPE,
                           text=True, timeout=1200, env=dict(os.environ, PYTHONPATH=moddir))
    except Exception as e:
        rec["skipped_reason"] = str(e)[:300]
        c["extra_cov"]["python_binding"] = rec
        return
    line = [l for l in p.stdout.splitlines() if l.startswith("BINDING ")]
    if not line:
        rec["skipped_reason"] = (p.stderr or p.stdout)[-400:]
        c["extra_cov"]["python_binding"] = rec
        return
    res = json.loads(line[0][8:])
    rec.update({k: v for k, v in res.items() if k != "violations"})
    rec["wall_s"] = round(time.time() - t0, 1)
    c["extra_cov"]["python_binding"] = rec
    c["counters"]["python_binding_programs"] = res["programs"]
    for v in res["violations"]:
        # only the part this property owns
        if c["prop"] == "C20" and "to_sql" not in v["sig"]:
            continue
        if c["prop"] == "C19" and "to_sql" in v["sig"]:
            continue
        sig = v["sig"]
        c["viol_counts"][sig] = c["viol_counts"].get(sig, 0) + 1
        if sig not in c["viols"]:
            c["viols"][sig] = {"sig": sig, "detail": "python binding: `%s`: %s" % (v["source"][:200], v["detail"]), "stage": "0:python-binding", "idx": 0,
                               "case": {"source": v["source"]}}


def maporder_across_processes(c):
    """every worker evaluates the same battery of map literals; the key order must not depend on the process"""
    seen = {}
    for n in c["notes_all"]:
        if n.get("kind") == "maporder":
            seen[n["text"]] = seen.get(n["text"], 0) + 1
    c["counters"]["maporder_processes"] = sum(seen.values())
    c["extra_cov"]["maporder_distinct_across_processes"] = len(seen)
    if len(seen) > 1:
        sig = "map-order|differs-across-processes"
        c["viol_counts"][sig] = len(seen)
        c["viols"][sig] = {"sig": sig, "detail": "the same map literals iterate in %d different key orders in different worker processes: %s" % (len(seen), list(seen)[:2]),
                           "stage": "2:battery", "idx": 0, "case": {"orders": list(seen)[:4]}}


CONFIG = {
    "C20": {
        "profiles": BOTH,
        "post": [python_binding_stage],
        "rule": "one evaluation = one CEL source translated (and its SQL re-parsed); distinct non-trivial = distinct sources with an operator or call, or containing a string literal",
        "floors": {"quick": {"_evaluations": 150000, "translations": 100000, "string_literal_cases": 30000, "unsupported_cases": 5},
                   "thorough": {"_evaluations": 1500000}},
        "assumptions": ASSUME_COMMON + [
            "the dialect's own operator spellings (!, in, %, (x)->'f'(args) for a method call) are taken as given (pinned by the to_sql tests); only structure and lexical safety are judged",
            "the SQL is read with PostgreSQL's lexical rules ('' is the only string escape, -- and /* */ comments) and operator precedence (:: tightest, then [], unary, * / %, + -, "
            "JSON arrows, comparisons, AND, OR)",
            "T(x) with one argument is a cast; T() is read as T(null); float and double are the same cast"],
        "technique": "runtime monitoring with an independent SQL tokenizer + precedence parser as oracle: the emitted SQL is parsed back and its tree compared with the generator's source tree; "
                     "string literals over an injection alphabet; unsupported constructs must give the Unsupported error",
        "level_text": "String literals over an alphabet of quotes, backslashes, dashes, semicolons, comment openers/closers, newlines and NUL (incl. the classic payloads) as operands, call and "
                      "cast arguments, list elements, map keys/values, index expressions and ternary arms; generated expressions over all operators, ?:, calls alone / in chains / nested with 0..4 "
                      "arguments, member and index paths, lists, maps, casts and unary runs. The SQL must lex without comments or unterminated strings, parse as one expression and equal the source "
                      "tree (operators, operand order, grouping, argument order, paths, casts, literal contents). Exploration only. Type constructors with 0-3 arguments; untranslatable constructs planted at random leaves of translatable expressions.",
        "level_note": "trusts the 250-line SQL reader in the harness and the renderer",
    },
    "C19": {
        "profiles": BOTH,
        "post": [python_binding_stage],
        "rule": "one evaluation = one compile, or one execution of an original / revived program; distinct non-trivial = distinct sources whose bytecode has more than one "
                "instruction or whose constant is not a plain integer",
        "floors": {"quick": {"_evaluations": 300000, "roundtrips/json": 50000, "roundtrips/bincode": 50000,
                             "variant/Float": 1000, "variant/Bytes": 500, "variant/TimeStamp": 200, "variant/Duration": 200, "variant/Err": 500, "variant/ByteCode": 5000,
                             "variant/Type": 2, "variant/Map": 500, "variant/List": 1000, "variant/Null": 500, "variant/UInt": 500, "variant/Ident": 5000,
                             "variant/JmpCond": 5000, "variant/FmtString": 50, "variant/MkDict": 500, "variant/Access": 500, "variant/Call": 5000},
                   "thorough": {"_evaluations": 3000000}},
        "assumptions": ASSUME_COMMON + [
            "timestamps and durations in constants are generated at millisecond resolution, as the statement restricts",
            "errors are compared by CelError variant; values bit-exactly",
            "the wasm binding cannot be built in this image; its serialisation entry points are the same two serde calls"],
        "technique": "runtime monitoring with a round-trip differential oracle: original vs deserialised program (serde_json and bincode) under several bindings, plus "
                     "source / parameter equality, second-round-trip stability and a coverage floor over the CelValue / ByteCode variants seen in serialised form",
        "level_text": "38 constant-rich templates (error constants, non-finite doubles, extreme integers, invalid-UTF-8 bytes, types, timestamps, durations, nested containers, nested "
                      "blocks), the corpus and generated constant-rich programs are serialised to JSON and bincode, read back and executed under three binding sets; serialisation and "
                      "deserialisation must succeed, outcomes must agree, source and parameters must be equal. Exploration only. Every pool value and random values as folded constants in eight shapes; nesting ladders up to and beyond the compiler's limits; programs that walk multi-key map constants at run time.",
        "level_note": "trusts canonical value rendering; JSON parameter order (a hash set) is normalised before comparing documents",
    },
    "C16": {
        "profiles": BOTH,
        "rule": "one evaluation = one time expression, accessor call or unit conversion; distinct non-trivial = distinct instants / durations / zone names / unit pairs",
        "floors": {"quick": {"_evaluations": 500000, "zones_exercised": 500, "accessor_zoned": 100000, "accessor_utc": 50000, "unknown_zone_checks": 500,
                             "law/(t+d)-d==t": 5000, "duration_accessor_checks": 50000, "unit_conversions": 5000, "unit_rejections": 500},
                   "thorough": {"_evaluations": 5000000}},
        "assumptions": ASSUME_COMMON + [
            "chrono_tz is trusted for the time-zone database (UTC offsets per instant) only; civil fields come from an independent days-to-civil algorithm",
            "unit factors are compared with the exact definitions to 1e-6 relative (the uom crate carries seven-significant-digit factors); identity / inverse / transitivity to 1e-12",
            "arithmetic laws apply whenever the intermediate result is representable"],
        "technique": "runtime monitoring: algebraic-law monitors over observed time arithmetic, an independent civil-calendar model (Hinnant) with tz offsets from chrono_tz for every "
                     "accessor and zone, truncation model for duration accessors, exact-definition table plus identity / inverse / transitivity laws for unit conversion; position-invariance monitor (every 12th evaluated expression re-evaluated in nine other syntactic / execution positions, value must be bit-identical, failure must stay a failure)",
        "level_text": "Instants from the whole representable range (pool boundaries, year boundaries 1..9999, leap days, spring/autumn hours 1990..2037, random seconds and milliseconds), "
                      "durations incl. extremes; every one of the ~600 IANA zone names plus invalid names x ten accessors; zone-less form vs 'UTC'; every unit pair within and across the four "
                      "categories over 23 magnitudes each. Exploration only. Unit aliases; unknown x unknown unit pairs.",
        "level_note": "trusts the 25-line civil calendar, chrono_tz offsets and the unit definition table in the harness",
    },
    "C15": {
        "profiles": BOTH,
        "rule": "one evaluation = one built-in call (variable or literal form); distinct non-trivial = distinct (string, needle) pairs with a string of >= 2 characters, "
                "distinct (pattern, string) pairs, distinct numeric operands and distinct (function, receiver type) shape rows",
        "floors": {"quick": {"_evaluations": 1000000, "func/split": 20000, "func/matches": 20000, "regex_invalid": 1000, "regex_valid": 10000, "func/pow": 10000,
                             "shapes_rejected": 500000, "shapes_accepted": 60},
                   "thorough": {"_evaluations": 8000000}},
        "assumptions": ASSUME_COMMON + [
            "white space: trim* results may strip ASCII or Unicode white space (both readings of the documentation are accepted)",
            "ceil/floor/round result type is compared numerically; out-of-range doubles: saturated integer, IEEE double or error",
            "sqrt of a negative integer: NaN or error; empty split delimiter: only the rejoin law; regex semantics are the regex crate's",
            "a receiver written as first argument (or vice versa) is documented for 'all functions' but implemented for size only: not classified; min/max/zip are variadic and not shape-checked",
            "double math is compared with host libm within 2 ulp (pow: 1e-12 relative)"],
        "technique": "runtime monitoring with naive reference implementations (byte-wise scanning), the regex engine called directly, i128 / libm math models and a signature table "
                     "for receiver/argument shapes; variable and literal form; position-invariance monitor (every 12th evaluated expression re-evaluated in nine other syntactic / execution positions, value must be bit-identical, failure must stay a failure)",
        "level_text": "Strings over a mixed ASCII / multi-byte / case-folding / white-space alphabet up to 10 symbols x needles (empty, single, overlapping, absent, longer, case-changed); "
                      "splitAt at every byte offset; regex patterns assembled from 26 pieces incl. invalid ones against the engine; every math function over the int/uint/double boundary grids "
                      "and random operands, pow over grid x exponents; every default function x receiver type x argument type tuples of arity 0..3 (exhaustive over 11 types) and sampled arity 4 "
                      "must be accepted exactly on its documented shapes. Exploration only. The alphabet holds every letter whose case mapping crosses the ASCII boundary or changes length; needles are also cut from the other-case form of the receiver.",
        "level_note": "trusts the naive string algorithms (60 lines), the regex crate and host libm",
    },
    "C11": {
        "profiles": BOTH,
        "post": [maporder_across_processes, miri_stage],
        "rule": "one evaluation = one Exec / Inspect of a history compared with the sequential model (or one repeated / threaded execution); distinct non-trivial = distinct histories "
                "with at least two state-changing operations before an Exec",
        "floors": {"quick": {"_evaluations": 300000, "execs_compared_with_fresh_context": 100000, "histories/len3": 30000, "repetitions": 5000,
                             "thread_executions": 100000, "maporder_processes": 2},
                   "thorough": {"_evaluations": 3000000, "histories/len4": 1500000}},
        "assumptions": ASSUME_COMMON + [
            "programs containing now() / timestamp() are excluded (the permitted variation)",
            "each thread owns its BindContext (the type is !Send) holding equal values and a clone of the context"],
        "technique": "runtime monitoring of recorded operation histories against a sequential model (name -> source per context, variable -> value per binding set): every Exec is "
                     "compared with a fresh context built from the model, state snapshots before/after every Exec, repetition in and across processes, 16-thread stress with per-thread logs",
        "level_text": "Exhaustive: all histories of length <= 3 (quick; length 4 sampled, thorough: all 1.7 M) over a 36-operation alphabet (2 contexts, 2 binding sets, 2 program names, 3 sources "
                      "of which one references the other program and one is a map macro, 2 variables, 2 values, clones in both directions), plus random histories of length 5..40 over generated "
                      "programs in 3 contexts / binding sets; each deterministic corpus program repeated 50 times and compared across the 16 worker processes; 16 threads x cloned contexts x "
                      "300..1000 iterations against the single-threaded reference. Exploration only. Histories include re-binding through the JSON overload; programs that walk hash maps and every built-in with hostile arguments are repeated freshly compiled, in one context, after other calls and on a fresh thread.",
        "level_note": "trusts the sequential model (two maps per slot) and serde_json snapshots of stored programs",
    },
    "C12": {
        "profiles": BOTH,
        "rule": "one evaluation = one execution of an entry program (resolution configuration, graph, chain, loop); distinct non-trivial = distinct program sets / "
                "configurations; for graphs: the entry has at least one outgoing edge",
        "floors": {"quick": {"_evaluations": 40000, "graphs_cyclic": 5000, "graphs_acyclic": 150, "chain_executions": 1000, "resolution_cases": 40,
                             "json_bindings_compared": 10000, "hook_frames": 1000},
                   "thorough": {"_evaluations": 200000, "graphs_cyclic": 50000}},
        "assumptions": ASSUME_COMMON + [
            "the depth limit value itself is not asserted: chains of <= 16 single-construct links must evaluate, 17..64 may evaluate or fail, nothing may crash",
            "call-position precedence is tested with non-constant arguments (constant calls of built-in names are evaluated by the compiler before any binding exists)",
            "cyclic graphs with fan-out >= 2 only use constructs that propagate a failure immediately (work budget: has/coalesce/macro bodies turn it into a value and evaluation goes on)"],
        "technique": "runtime monitoring with a resolution-order model and a graph model (cycle detection + expected value) over exhaustive small reference graphs, each edge through one "
                     "of twelve referencing constructs; executions on the main thread and a 2 MiB thread with crash triage; hook monitor for open frames and per-iteration depth",
        "level_text": "All name-collision configurations for an identifier (type name / variable / program) in three positions, for a call (user function / macro / type constructor / default) "
                      "and field-vs-method; rebinding and re-adding; JSON-bound vs directly bound values; every referencing construct x 1-, 2- and 3-cycles; all 512 three-node graphs and "
                      "(thorough) all 65 536 four-node graphs with self-loops; chains of 1..64 links per construct; loop bodies over 1..200 elements under the frame monitor. Cycles must end "
                      "in an error on both stack sizes, acyclic graphs in the model value. Exploration only (complete for the enumerated graphs). Identifier resolution over 13 names x 22 positions against a fresh variable bound to the prescribed value; field versus method for twelve method names called with arguments on bound, literal and indexed maps.",
        "level_note": "trusts the graph model (DFS, 20 lines) and the driver's crash triage",
    },
    "C10": {
        "profiles": BOTH,
        "rule": "one evaluation = one program compiled and walked, or one execution under the trace monitor, or one injected instruction sequence executed; "
                "distinct non-trivial = distinct sources whose top-level block contains at least one jump, and distinct injected sequences",
        "floors": {"quick": {"_evaluations": 300000, "walker_blocks": 300000, "walker_jumps": 200000, "walker_nested_blocks": 100000, "trace_frames": 500000,
                             "cond_jump_taken": 50000, "cond_jump_fallthrough": 50000, "injected_programs": 50000,
                             "injected_outcome/err": 10000, "injected_outcome/val": 5000},
                   "thorough": {"_evaluations": 3000000}},
        "assumptions": ASSUME_COMMON + [
            "'all paths' is obtained per emitted block by a structural walk (complete for that block because control flow is forward-only) plus dynamic confirmation on executed "
            "paths; a compiler path that no generated program reaches emits nothing to walk",
            "in-range backward jumps are not injected (the VM legitimately loops on them)"],
        "technique": "runtime monitoring: structural invariant walk of every emitted block at a quiescent point (after compile), trace monitor over VM hook events "
                     "(pc monotone, steps <= length, observed stack height == height predicted by the effect table), fault injection of instruction sequences through serde",
        "level_text": "Every program emitted for the corpus and for control-flow-heavy generated sources (nested ||, &&, ?:, match, calls, macros, f-strings) is walked: jumps forward "
                      "and inside [i+1, len], no underflow, equal heights at joins, exactly one value at the end, recursively for nested blocks. Each program then runs under four "
                      "binding sets that flip conditions while the hook monitor checks every step against the walker's effect table. Random instruction sequences with out-of-range, "
                      "huge and negative jump distances and starved stacks must end in a value or an error with every fetch inside the block. Exploration, not a proof about the compiler. Injected programs include failure-valued conditions and directed conditional jumps of every sense and reach; the trace monitor also demands that a block runs off its end only at its length.",
        "level_note": "trusts the effect table (cross-validated dynamically against the VM on every executed step) and the hook events",
    },
    "C18": {
        "profiles": BOTH,
        "rule": "one evaluation = one source compiled (span check), one slice recompiled or one corrupted source compiled (error location); distinct non-trivial = "
                "distinct sources with at least three nodes that have their own span, and distinct corrupted sources",
        "floors": {"quick": {"_evaluations": 200000, "ast_nodes_walked": 1000000, "slices_recompiled": 50000, "tokens_checked": 100000, "syntax_errors_located": 50000},
                   "thorough": {"_evaluations": 2000000}},
        "assumptions": ASSUME_COMMON + [
            "spans of match patterns (and the case nodes derived from them) are excluded, as the property says",
            "zero-width bookkeeping nodes (empty unary-run lists) are only required to lie inside their parent",
            "the AST is walked generically as JSON ({loc, node} objects); columns are counted in characters"],
        "technique": "runtime monitoring: the renderer's recorded span of every sub-expression is the ground truth for the AST's spans (set equality in both directions), "
                     "structural invariant walk over the serialised tree (containment, disjoint siblings, root), slice-and-recompile, token re-lex, error-location bounds",
        "level_text": "Generated expressions of all node kinds rendered with random white space (blanks, tabs, newlines), multi-byte string literals and random/redundant parentheses: every "
                      "renderer span must be the span of a syntax-tree node and vice versa; children inside parents, siblings disjoint, root without surrounding blanks; the text of a "
                      "span recompiles to the same normalised subtree; token spans increase, do not overlap and re-lex to the same token; for corrupted sources the reported line/column "
                      "lies within the source. Exploration only. Syntax errors inside f-string expressions in multi-line layouts with short lines above.",
        "level_note": "trusts the renderer's layout bookkeeping (line/column counting) and the generic JSON walk",
    },
    "C02": {
        "profiles": BOTH,
        "rule": "one evaluation = one source parsed (shape check) or executed (outcome check); distinct non-trivial = distinct operator sequences with at least two "
                "operators and distinct random trees with at least four nodes",
        "floors": {"quick": {"_evaluations": 300000, "flat/2ops": 20000, "flat/3ops": 2000, "ternary_positions": 5000, "postfix_positions": 20000,
                             "disagreeing_parens": 1000, "arith_evaluated": 10000},
                   "thorough": {"_evaluations": 5000000, "flat/3ops": 1000000}},
        "assumptions": ASSUME_COMMON + [
            "mixed prefix runs (!-x) and a bare ?: / match in operand position are not in the grammar and are not generated as positives",
            "the AST is normalised by collapsing single-child wrappers and parentheses (public grammar types walked in astnorm.rs)"],
        "technique": "runtime monitoring with an independent shunting-yard parser as reference model for the exposed syntax tree, metamorphic re-rendering "
                     "(minimal / redundant / random parentheses x white space) and an i128 evaluation of arithmetic trees; position-invariance monitor (every 12th evaluated expression re-evaluated in nine other syntactic / execution positions, value must be bit-identical, failure must stay a failure)",
        "level_text": "Exhaustive: every flat sequence of 1..3 binary operators (14 + 196 + 2744) with the five unary prefixes per operand (quick: all <= 2-operator sequences with all "
                      "prefixes, 3-operator ones without; thorough: all 1.7 M), ?: at every pair of positions, five postfix chains at every operand position; the normalised AST must "
                      "equal the shunting-yard tree. Random trees to depth 7 in six renderings must give the same AST and outcome; moved parentheses must give the other tree; "
                      "arithmetic trees must evaluate to the i128 value of the expected tree. Exploration only (the exhaustive part is complete for its bounds). Operands are variables, literals of every numeric spelling (exponent, hexadecimal) and constant primaries with postfix chains; runs of prefix operators are compared with their nested single-operator form; flat chains of one precedence level are evaluated against i128.",
        "level_note": "trusts the 30-line shunting-yard parser, the AST walk and the renderer",
    },
    "C17": {
        "profiles": BOTH,
        "rule": "one evaluation = one compile (coverage check), one perturbed execution or one filter check; distinct non-trivial = distinct sources with at least one "
                "free variable and at least three nodes",
        "floors": {"quick": {"_evaluations": 150000, "programs/generated": 80000, "filter_checks": 10000, "unreported_names_perturbed": 1000},
                   "thorough": {"_evaluations": 1500000}},
        "assumptions": ASSUME_COMMON + [
            "ground truth for 'variables read' is the generator's own free-variable computation over the tree it rendered (macro loop variables are bound inside bodies, "
            "the reduce seed is outside the loop scope)",
            "loop variables, function and type names may or may not be reported (they occur in the source)"],
        "technique": "runtime monitoring with an independent free-identifier computation (generator ground truth) and an evaluation-relevance monitor "
                     "(perturbing every unreported name must not change the outcome); set-equality monitor for filter_from_bindings",
        "level_text": "42 hand-written programs covering every syntactic position of the statement plus generated programs with 1..6 variables (names colliding with built-ins, "
                      "loop variables shadowing outer variables): variables_read <= reported <= identifiers_in_source; every unreported identifier is bound to three values and left unbound "
                      "and must not influence the outcome; filter_from_bindings against BindContext::new() plus bound params, a user function and a user macro. Exploration only.",
        "level_note": "trusts gen::free_vars (60 lines) and the renderer",
    },
    "C09": {
        "profiles": BOTH,
        "rule": "one evaluation = one execution of an expression in one variable/literal form; distinct non-trivial = distinct (expression, binding) pairs with a non-empty "
                "substitution set and at least one operator or call",
        "floors": {"quick": {"_evaluations": 300000, "relation/var-to-literal": 50000, "relation/literal-to-var": 10000, "relation/template": 10000,
                             "compile_time_calls_folded": 5000, "clock_executions": 40},
                   "thorough": {"_evaluations": 1500000}},
        "assumptions": ASSUME_COMMON + [
            "error variants are not compared across the two forms (both must fail)",
            "built-in functions are not rebound by the caller",
            "clock: a reading must lie inside the wall-clock bracket of its own execution (logical containment, no latency bound)"],
        "technique": "runtime monitoring with a metamorphic oracle: the same expression with any subset of its variables replaced by literals of their bound values (and literals "
                     "abstracted into variables) must give the same outcome; ConstFold hook events confirm that the compile-time path ran; clock-bracket monitor for now()/timestamp(); position-invariance monitor (every 12th evaluated expression re-evaluated in nine other syntactic / execution positions, value must be bit-identical, failure must stay a failure)",
        "level_text": "Generated full-grammar expressions with 1..5 variables of every spellable type x all subsets of the variables (<= 31) turned into literals, plus the reverse "
                      "direction, plus 44 hand-written hazard templates (macros over partly constant lists, duplicate keys, ?: conditions, unbound variables, has/coalesce) over value "
                      "combinations; 21 clock-dependent programs must report an instant inside the bracket of each execution, twice and after a serde round trip. Exploration only.",
        "level_note": "trusts the literal speller (validated independently by C13) and the renderer",
    },
    "C07": {
        "profiles": BOTH,
        "post": [maporder_across_processes],
        "rule": "one evaluation = one macro execution (plus the per-element body executions that predict it); distinct non-trivial = distinct (macro source, list) pairs "
                "with a list of length >= 2, and distinct key sets of >= 2 keys",
        "floors": {"quick": {"_evaluations": 50000, "lists_longer_than_32": 1000, "macro/reduce": 2000, "macro/exists_one": 2000, "maporder_processes": 2},
                   "thorough": {"_evaluations": 500000}},
        "assumptions": ASSUME_COMMON + [
            "the body executed on its own (separate program, loop variable bound) is the reference for what the body means",
            "a body failing on an element after the deciding one must not fail the macro"],
        "technique": "runtime monitoring by differential decomposition: per-element executions of the body through the API + the defining fold in the harness; "
                     "call-log monitor for visit order and early stop; repeated fresh-map and cross-process comparison for map iteration order; position-invariance monitor (every 12th evaluated expression re-evaluated in nine other syntactic / execution positions, value must be bit-identical, failure must stay a failure)",
        "level_text": "Lists of length 0..64 (regularly beyond the call-depth limit) of every element type; bodies from the typed generator that read the loop variable, outer "
                      "variables, a stored program and inner macros re-using the same variable name, with the loop variable's name also bound to a decoy outside; all seven macro forms. "
                      "Result and the exact sequence of body evaluations must equal the fold over independent executions. Map iteration order is compared over 20 freshly built equal "
                      "maps per key set and across the 16 worker processes. Exploration only. Constant receivers (literal list / map, plain and nested) against bound receivers with bodies that absorb outer names; folds over maps.",
        "level_note": "trusts the fold definitions in the harness (40 lines) and the logging functions",
    },
    "C08": {
        "profiles": BOTH,
        "rule": "one evaluation = one has()/coalesce() expression in one context under one binding configuration; distinct non-trivial = distinct "
                "(source, configuration, leaf) triples with a path of depth >= 1 and distinct non-empty coalesce argument lists",
        "floors": {"quick": {"_evaluations": 100000, "has_cfg/MidMissing(#)": 1000, "has_cfg/MidNotMap(#)": 1000, "has_cfg/RootUnbound": 1000,
                             "coalesce_ctx/map": 4000, "has_other_failures": 50},
                   "thorough": {"_evaluations": 300000}},
        "assumptions": ASSUME_COMMON + [
            "'intermediate is not a map': false or a propagated error is accepted, true never",
            "paths through a method call on an unbound root are outside the quantifier and not generated"],
        "technique": "runtime monitoring with a path-presence model over all binding configurations and a call-log model for coalesce's left-to-right, stop-at-chosen evaluation; position-invariance monitor (every 12th evaluated expression re-evaluated in nine other syntactic / execution positions, value must be bit-identical, failure must stay a failure)",
        "level_text": "has(): exhaustive over field paths of depth 0..4 (dot / index / mixed forms, keys that are also method names), the six binding configurations of the "
                      "quantifier, four leaf values and nine contexts (top level, operand, negation, all/exists/map/filter/reduce bodies, nested macros, loop variable as root); "
                      "eight non-absence failures must propagate. coalesce(): every argument list of length 0..4 over eight item kinds (logged present/null, literal null, unbound, "
                      "absent key, failing call, division by zero, bad index) plus random longer lists, result and call log against the model. Exploration only. Null and scalar parents, spelling independence of field paths, names that resolve to stored programs (nine programs x twelve uses x every context) against the source written in place.",
        "level_note": "trusts the harness path builder and the logging functions",
    },
    "C05": {
        "profiles": BOTH,
        "rule": "one evaluation = one execution of a logical/conditional tree (or of a truthiness context); distinct non-trivial = distinct sources whose "
                "reference evaluation makes at least one logged call (so laziness is observable)",
        "floors": {"quick": {"_evaluations": 150000, "root/||": 5000, "root/&&": 5000, "root/?:": 5000, "root/match": 2000, "truthiness/ternary": 200},
                   "thorough": {"_evaluations": 1500000}},
        "assumptions": ASSUME_COMMON + [
            "which error is returned is not compared (failed / not failed only)",
            "a failing match scrutinee or pattern is outside the statement and not generated",
            "bool() on the ten boolean spellings is a conversion (C14) and excluded from the truthiness comparison"],
        "technique": "runtime monitoring: call-log monitor (bound functions with unique ids record every evaluation) compared with a reference evaluator of the "
                     "laziness / failure-absorption rules; truthiness table checked in nine syntactic contexts; position-invariance monitor (every 12th evaluated expression re-evaluated in nine other syntactic / execution positions, value must be bit-identical, failure must stay a failure)",
        "level_text": "All one-operator trees and all two-operator trees over 12 atom kinds (logging truthy/falsy/non-bool calls, failing calls, literals, bound variables, unbound "
                      "identifier, run-time and compile-time division by zero) and random trees up to 12 operators incl. match are executed; result and exact call sequence must "
                      "equal the reference evaluator. Truthiness of every pool value is compared in ?:, !, ||, &&, all, exists, filter, map and bool(), literal and bound. Exploration only. The truthiness stage covers runs of ! (2-4, spaced, nested, as list element and comparison operand).",
        "level_note": "trusts the 60-line reference evaluator and the logging functions bound through bind_func",
    },
    "C06": {
        "profiles": BOTH,
        "rule": "one evaluation = one expression over a generated list / map / string; distinct non-trivial = distinct non-empty collection literals "
                "(source text incl. which elements are literals and which are bound variables)",
        "floors": {"quick": {"_evaluations": 500000, "sub/map-literal-dup": 2000, "sub/index-oob": 5000, "sub/map-field-absent": 2000},
                   "thorough": {"_evaluations": 5000000}},
        "assumptions": ASSUME_COMMON + [
            "list membership across numeric types (1 in [1u]) and of containers is not asserted in the negative direction",
            "absent key / field must be CelError::Attribute (the class has() and coalesce() depend on)"],
        "technique": "runtime monitoring with a reference model (vectors, last-wins insertion maps) over generated collections built from literal, bound and mixed elements; position-invariance monitor (every 12th evaluated expression re-evaluated in nine other syntactic / execution positions, value must be bit-identical, failure must stay a failure)",
        "level_text": "Lists and maps of size 0..8 with elements of every type (nested) are built all-literal (compiler), all-variable (VM) and mixed; every index in "
                      "[-size-2, size+2] plus extreme ints/uints, non-integer indices, every key of a small key set incl. duplicates, absent keys and keys that are method names, "
                      "membership, concatenation and size are compared with the model in bound and literal form. Exploration only. Field access is repeated with variables and loop variables spelled like the field.",
        "level_note": "trusts the 20-line collection model in the harness",
    },
    "C14": {
        "profiles": BOTH,
        "rule": "one evaluation = one conversion call, law instance, round trip or f-string; distinct non-trivial = distinct (constructor, source value) pairs, "
                "round-trip operands and f-strings with at least one embedded expression",
        "floors": {"quick": {"_evaluations": 300000, "fstring/expect-value": 2000, "fstring/expect-failure": 2000, "law/idempotent": 1000},
                   "thorough": {"_evaluations": 3000000}},
        "assumptions": ASSUME_COMMON + [
            "double -> integer outside the target range / NaN: the saturated value or an error; uint(d) for d <= -1: 0 or an error",
            "which strings int()/uint()/double() accept beyond plain decimal is not asserted, only that an accepted string converts to the number it spells",
            "string(bool|null|type|list|map), bool(non-string) are not asserted here (truthiness is C05)"],
        "technique": "runtime monitoring with a conversion-table oracle, round-trip and idempotence laws, literal-vs-variable differential, and differential "
                     "decomposition of f-strings (each segment's string(e) evaluated separately through the API); position-invariance monitor (every 12th evaluated expression re-evaluated in nine other syntactic / execution positions, value must be bit-identical, failure must stay a failure)",
        "level_text": "Every pool value (all types, boundaries) under every constructor in variable and literal form is compared with the conversion table of the statement; "
                      "T(T(x))==T(x) and type(T(x))==T are checked wherever T(x) evaluates; random numeric strings (signs, blanks, exponents, non-ASCII digits), random doubles "
                      "and 64-bit integers; round trips int/uint/double/bytes/timestamp through string; f-strings of 0..6 segments against the concatenation of separately "
                      "evaluated parts, failing when a part has no string form. Exploration only. type(x) is modelled exactly; f-strings embed literals and constant expressions of every type next to variables.",
        "level_note": "trusts the harness conversion table (direct transcription of the statement) and host float parsing/printing",
    },
    "C13": {
        "profiles": BOTH,
        "rule": "one evaluation = one literal compiled and evaluated (or rejected); distinct non-trivial = distinct literal texts",
        "floors": {"quick": {"_evaluations": 200000, "form/string/quoted": 5000, "form/bytes/bytes": 5000, "form/int/hex-lower": 2000,
                             "negative/surrogate-u": 500},
                   "thorough": {"_evaluations": 2000000}},
        "assumptions": ASSUME_COMMON + [
            "correct rounding of decimal doubles is judged against the host's str::parse::<f64>",
            "i64::MIN spelled as -9223372036854775808: the exact value or a rejection is accepted",
            "unknown escape letters and the U suffix-free forms not listed in the statement are not classified"],
        "technique": "runtime monitoring with an independent speller oracle: value -> randomly chosen supported spelling -> compile+evaluate -> bit-exact comparison; "
                     "malformed templates must yield CelError::Syntax; position-invariance monitor (every 12th evaluated expression re-evaluated in nine other syntactic / execution positions, value must be bit-identical, failure must stay a failure)",
        "level_text": "Boundary and random int64/uint64 values (decimal, hex in both cases), finite doubles from random bit patterns in six spellings, Unicode strings over all "
                      "planes and byte strings over 0..255 with a random escape form per character (simple, \\x, \\u, \\U, octal, raw, f-prefixed, both quotes) must evaluate to "
                      "exactly the spelled value; sixteen malformed/out-of-range templates must be rejected with a syntax error. Exploration only. Double literals are also generated from spellings (random digit strings) and from scaled 53-bit mantissas; every hexadecimal spelling; raw strings with backslashes at every position; malformed escapes draw any non-hexadecimal character.",
        "level_note": "trusts the harness speller and the host's decimal-to-double conversion",
    },
    "C04": {
        "profiles": BOTH,
        "rule": "one evaluation = one execution of a relational operator, sort, min or max; distinct non-trivial = distinct ordered value pairs "
                "(grid and random) and distinct lists of length >= 2",
        "floors": {"quick": {"_evaluations": 500000, "unrelated_pairs": 1000}, "thorough": {"_evaluations": 4000000}},
        "assumptions": ASSUME_COMMON + [
            "model order: i128 for int/uint, IEEE for doubles, integer vs double through `as f64`, byte-wise for strings/bytes, chrono for time",
            "not asserted: bool vs number, order between two lists/maps/nulls/types, anything involving NaN beyond ==/!= complement"],
        "technique": "runtime monitoring: algebraic-law monitors (complement, symmetry, reflexivity, trichotomy) plus a model order over an exhaustive "
                     "boundary grid of pairs and random values; permutation + inversion monitor for sort; first-extreme monitor for min/max; position-invariance monitor (every 12th evaluated expression re-evaluated in nine other syntactic / execution positions, value must be bit-identical, failure must stay a failure)",
        "level_text": "All ordered pairs of a ~200-value boundary grid (every type) under all six relational operators, variable and literal form, are checked "
                      "against the laws and an independent total order per group; unrelated-type comparisons must fail; random pairs, nested containers and "
                      "lists up to 40 (2000 in thorough) elements exercise sort/min/max. Transitivity follows from agreement with the model order on all pairs. Exploration only.",
        "level_note": "trusts the harness model order (30 lines) and canonical value rendering",
    },
    "C03": {
        "profiles": ALWAYS_BOTH,
        "digest": True,
        "post": [profile_diff],
        "rule": "one evaluation = one execution of `a OP b` / `-a` (variable form, literal form, literal-variable form); distinct non-trivial = "
                "distinct ordered operand pairs with both operands numeric or bool (grid pairs and random 64-bit pairs)",
        "floors": {"quick": {"_evaluations": 300000, "profile_cases_compared": 1000, "outcome/val": 10000, "outcome/err": 1000},
                   "thorough": {"_evaluations": 3000000, "profile_cases_compared": 1000}},
        "assumptions": ASSUME_COMMON + [
            "reference model: i128 arithmetic, host IEEE-754 doubles, widening table as in the statement, truncating integer division",
            "accepted either way: int-uint mix with uint > i64::MAX (exact or error), i64::MIN % -1 (0 or error), % on doubles (fmod or error)"],
        "technique": "runtime monitoring with a reference-model oracle (i128 / IEEE) over an exhaustive boundary grid and random operands, "
                     "literal-vs-variable differential, overflow-checks build vs release-like build digest diff; position-invariance monitor (every 12th evaluated expression re-evaluated in nine other syntactic / execution positions, value must be bit-identical, failure must stay a failure)",
        "level_text": "Every ordered pair of the boundary grid (ints, uints, doubles, bools) under every operator, in variable, literal and mixed form, and "
                      "under both build profiles, is compared bit-exactly with an independent i128/IEEE model; all numeric x non-numeric and non-numeric pairs "
                      "must fail; per-case outcome digests of the two profiles are diffed. Random 64-bit operands widen the sample. Exploration only. Chains a op1 b op2 c with every subset of operands as literals against the parenthesised all-variable form; runs of 1-4 unary minus signs on every grid value and on non-numeric types.",
        "level_note": "trusts the harness model (40 lines of i128 arithmetic) and the host FPU; grid is finite, random part is sampling",
    },
    "C01": {
        "profiles": BOTH,
        "post": [asan_stage, miri_stage],
        "rule": "one evaluation = one compile+exec (or exec of a precompiled built-in call) through the public API; "
                "distinct non-trivial = distinct source texts (sweep programs, literal-form calls, every non-empty corpus prefix, "
                "mutated and random sources of >= 2 characters)",
        "floors": {"quick": {"_evaluations": 500000, "outcome/val": 1000, "outcome/err": 1000},
                   "thorough": {"_evaluations": 5000000}},
        "assumptions": ASSUME_COMMON + [
            "resource blow-ups (memory, time within the work budget) are inconclusive, not violations",
            "bounded progress: a case that does not return within 120 s when run alone counts as 'no return'",
            "stack exhaustion is judged on optimised builds (mon-chk / mon-rel), main thread and a default 2 MiB thread"],
        "technique": "runtime monitoring: outcome capture (catch_unwind + panic hook), child-process exit status with a case journal for aborts, "
                     "VM step-bound hook; overflow-checks build as integer sanitizer",
        "level_text": "Every generated execution (exhaustive built-in sweep up to arity 2 over a boundary pool in variable and literal form, operators over the "
                      "whole pool, every corpus prefix, mutated / random / grammar-derived sources with hostile bindings, nesting and length ladders in crash-isolated "
                      "workers on 8 MiB and 2 MiB stacks) is observed to end in a value or an error; panics are caught and attributed, process deaths are attributed "
                      "through the journal. Exploration, not proof: it says nothing about inputs that were not executed. Also: every pair of an integer pool that holds the 64-bit limits counted in seconds / milli- / micro- / nanoseconds for every built-in in free and method form; sort / min / max over long lists of comparable families with NaN and foreign strangers.",
        "level_note": "trusts the harness's outcome capture and the driver's crash triage; optimised builds only; quadratic-time ladders capped at 8192 elements",
    },
}
