"""Per-property configuration of the driver: build profiles per tier, observation floors,
non-triviality rule text, assumptions, driver-side post stages."""

ASSUME_COMMON = [
    "default feature set of rscel (type_prop, neg_index, protobuf); protobuf-backed values are not generated",
    "verdict covers only the executions produced in this run (runtime monitoring, no proof)",
    "harness linked against /repo by path and rebuilt before the run, hooks enabled with --cfg rscel_verif",
]

BOTH = {"quick": ["mon-chk"], "thorough": ["mon-chk", "mon-rel"]}

CONFIG = {
    "C01": {
        "profiles": BOTH,
        "rule": "one evaluation = one compile+exec (or exec of a precompiled built-in call) through the public API; "
                "distinct non-trivial = distinct source texts (sweep programs, literal-form calls, every non-empty corpus prefix, "
                "mutated and random sources of >= 2 characters)",
        "floors": {"quick": {"_evaluations": 500000, "outcome/val": 1000, "outcome/err": 1000},
                   "thorough": {"_evaluations": 5000000}},
        "assumptions": ASSUME_COMMON + [
            "resource blow-ups (memory, time within the work budget) are inconclusive, not violations",
            "bounded progress: a case that does not return within 120 s when run alone counts as 'no return'",
            "stack exhaustion is judged on optimised builds (mon-chk / mon-rel), main thread and a default 2 MiB thread"],
        "technique": "runtime monitoring: outcome capture (catch_unwind + panic hook), child-process exit status with a case journal for aborts, "
                     "VM step-bound hook; overflow-checks build as integer sanitizer",
        "level_text": "Every generated execution (exhaustive built-in sweep up to arity 2 over a boundary pool in variable and literal form, operators over the "
                      "whole pool, every corpus prefix, mutated / random / grammar-derived sources with hostile bindings, nesting and length ladders in crash-isolated "
                      "workers on 8 MiB and 2 MiB stacks) is observed to end in a value or an error; panics are caught and attributed, process deaths are attributed "
                      "through the journal. Exploration, not proof: it says nothing about inputs that were not executed.",
        "level_note": "trusts the harness's outcome capture and the driver's crash triage; optimised builds only; quadratic-time ladders capped at 8192 elements",
    },
}
