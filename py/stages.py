"""Per-property configuration of the driver: build profiles per tier, observation floors,
non-triviality rule text, assumptions, driver-side post stages."""

ASSUME_COMMON = [
    "default feature set of rscel (type_prop, neg_index, protobuf); protobuf-backed values are not generated",
    "verdict covers only the executions produced in this run (runtime monitoring, no proof)",
    "harness linked against /repo by path and rebuilt before the run, hooks enabled with --cfg rscel_verif",
]

BOTH = {"quick": ["mon-chk"], "thorough": ["mon-chk", "mon-rel"]}

CONFIG = {
    "C01": {
        "profiles": BOTH,
        "rule": "one evaluation = one compile+exec (or exec of a precompiled built-in call) through the public API; "
                "distinct non-trivial = distinct source texts (sweep programs, literal-form calls, every non-empty corpus prefix, "
                "mutated and random sources of >= 2 characters)",
        "floors": {"quick": {"_evaluations": 500000, "outcome/val": 1000, "outcome/err": 1000},
                   "thorough": {"_evaluations": 5000000}},
        "assumptions": ASSUME_COMMON + [
            "resource blow-ups (memory, time within the work budget) are inconclusive, not violations",
            "bounded progress: a case that does not return within 120 s when run alone counts as 'no return'"],
    },
}
