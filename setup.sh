#!/bin/bash
# Build every harness profile once (offline). Checks rebuild incrementally afterwards.
set -e
cd "$(dirname "$0")/harness"
export CARGO_NET_OFFLINE=true
unset RUSTFLAGS
cargo build --offline --profile mon-chk --quiet
cargo build --offline --profile mon-rel --quiet
echo "setup ok"
