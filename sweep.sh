#!/bin/bash
# Run every claimed check at several seeds; print one line per run. usage: ./sweep.sh quick|thorough "1 2 3"
cd "$(dirname "$0")"
tier=${1:-quick}; seeds=${2:-"1 2 3 7 1234"}
props=$(python3 -c "import json;print(' '.join(c['property_id'] for c in json.load(open('MANIFEST.json'))['checks']))")
for s in $seeds; do for p in $props; do
  out=$(VERIF_SEED=$s ./check $p --tier $tier 2>&1); rc=$?
  echo "seed=$s $p rc=$rc $(echo "$out" | grep -E "^$p " | cut -c1-160) $(echo "$out" | grep -cE '^VIOLATION') viol $(echo "$out" | grep -E '^INCONCLUSIVE' | cut -c1-120)"
done; done
