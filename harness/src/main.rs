//! rvmon: worker of the rscel runtime monitors. One process = one shard of one property's
//! workload. See /verif/DESIGN.md section 2.

mod astnorm;
mod corpus;
mod gen;
mod hookmon;
mod mon;
mod props;
mod rng;
mod vals;
mod walker;

use mon::{Ctx, Tier};

fn usage() -> ! {
    eprintln!(
        "usage: rvmon run <Cnn> --seed S --tier quick|thorough --shard i/n --out FILE \
         [--journal FILE] [--hashes FILE] [--only stage:idx] [--resume stage:idx] [flags..]\n       \
         rvmon eval <source> [name=literal ...]"
    );
    std::process::exit(2)
}

fn parse_pair(s: &str) -> (usize, u64) {
    let (a, b) = s.split_once(':').unwrap_or_else(|| usage());
    (a.parse().unwrap_or_else(|_| usage()), b.parse().unwrap_or_else(|_| usage()))
}

fn main() {
    let args: Vec<String> = std::env::args().collect();
    if args.len() < 2 {
        usage();
    }
    mon::install_panic_hook();
    match args[1].as_str() {
        "eval" => {
            if args.len() < 3 {
                usage();
            }
            let mut binds = Vec::new();
            for a in &args[3..] {
                let (k, v) = a.split_once('=').unwrap_or_else(|| usage());
                match mon::run1(v, &[]) {
                    mon::Out::Val(val) => binds.push((k.to_string(), val)),
                    o => {
                        eprintln!("binding {} does not evaluate: {}", k, o.show());
                        std::process::exit(2);
                    }
                }
            }
            match mon::compile(&args[2]) {
                Ok(p) => {
                    println!("params: {:?}", p.params());
                    println!("bytecode:\n{}", p.dumps_bc());
                    println!("outcome: {}", mon::run_prog(&p, &binds).show());
                }
                Err(o) => println!("compile: {}", o.show()),
            }
        }
        "smoke" => {
            // rvmon smoke <cases> <threads> : small deterministic workload for Miri / ASan
            // (UB and data-race interpreters are ~10^4 x slower: a few hundred operations)
            let cases: u64 = args.get(2).and_then(|s| s.parse().ok()).unwrap_or(60);
            let threads: usize = args.get(3).and_then(|s| s.parse().ok()).unwrap_or(4);
            // optional 5th argument: slice number, so that parallel processes cover different cases / corpus programs
            let slice: u64 = args.get(5).and_then(|s| s.parse().ok()).unwrap_or(0);
            let mut outcomes = std::collections::BTreeMap::<String, u64>::new();
            for i in 0..cases {
                let mut rng = rng::Rng::new(rng::mix(&[0x5eed, i + slice * cases]));
                let vars = gen::random_vars(&mut rng, 2);
                let cfg = gen::GenCfg::basic(vars.clone());
                let ty = gen::random_ty(&mut rng, 1);
                let e = gen::Gen::new(&mut rng, cfg).expr(&ty, 2);
                let src = gen::render(&e, gen::Ws::Pretty, gen::Parens::Minimal, None).text;
                let binds = gen::random_binds(&mut rng, &vars, true);
                let out = mon::run1(&src, &binds);
                *outcomes.entry(out.class().split(':').next().unwrap().to_string()).or_insert(0) += 1;
                if let Ok(p) = mon::compile(&src) {
                    // serde round trip under the interpreter as well
                    if let Ok(j) = serde_json::to_string(&p) {
                        let _ = serde_json::from_str::<rscel::Program>(&j);
                    }
                }
            }
            let mut c = rscel::CelContext::new();
            let mut names = Vec::new();
            let nprogs: usize = args.get(4).and_then(|s| s.parse().ok()).unwrap_or(40);
            let skip = (slice as usize * nprogs) % corpus::CORPUS.len().max(1);
            for (i, s) in corpus::CORPUS.iter().enumerate().skip(skip).take(nprogs) {
                if !s.contains("now()") && !s.contains("timestamp()") && c.add_program_str(&format!("p{}", i), s).is_ok() {
                    names.push(format!("p{}", i));
                }
            }
            let reference: Vec<String> = {
                let b = mon::bind_ctx(&props::c01::corpus_binds());
                names.iter().map(|n| mon::exec_prog(&mut c, n, &b).canon()).collect()
            };
            let mut hs = Vec::new();
            for _ in 0..threads {
                let mut cc = c.clone();
                let names = names.clone();
                let reference = reference.clone();
                hs.push(std::thread::spawn(move || {
                    let b = mon::bind_ctx(&props::c01::corpus_binds());
                    let mut diffs = 0u64;
                    for (k, n) in names.iter().enumerate() {
                        if mon::exec_prog(&mut cc, n, &b).canon() != reference[k] {
                            diffs += 1;
                        }
                    }
                    diffs
                }));
            }
            let diffs: u64 = hs.into_iter().map(|h| h.join().unwrap_or(1_000_000)).sum();
            println!("SMOKE cases={} threads={} thread_programs={} thread_diffs={} outcomes={:?}", cases, threads, names.len(), diffs, outcomes);
            if diffs > 0 {
                std::process::exit(3);
            }
        }
        "cost" => {
            // rvmon cost <src>: the generators' static work estimate of a source (debugging aid)
            let src = args.get(2).cloned().unwrap_or_default();
            match rscel::Program::from_source(&src) {
                Ok(p) => {
                    let e = astnorm::expr(p.ast().expect("ast"));
                    let (s, w) = gen::cost(&e);
                    println!("size<={:e} work<={:e} too_heavy={}", s, w, gen::too_heavy(&e));
                }
                Err(e) => println!("rejected: {}", e),
            }
        }
        "sources" => {
            // rvmon sources <n> <seed>: JSON lines {source, sql} for the binding stage
            // (constant-rich programs without free variables, so that no bindings are needed)
            let n: u64 = args.get(2).and_then(|s| s.parse().ok()).unwrap_or(100);
            let seed: u64 = args.get(3).and_then(|s| s.parse().ok()).unwrap_or(1);
            let mut emit = |src: &str| {
                let outcome = mon::run1(src, &[]);
                let sql = match mon::catch(|| {
                    use rscel_to_sql::IntoSqlBuilder;
                    let p = rscel::Program::from_source(src).ok()?;
                    p.ast()?.into_sql_builder().ok()?.to_sql().ok()
                }) {
                    Ok(v) => v,
                    Err(_) => None,
                };
                println!("{}", serde_json::json!({"source": src, "ok": outcome.is_val(), "kind": outcome.class(), "sql": sql}));
            };
            for s in corpus::CORPUS {
                emit(s);
            }
            for i in 0..n {
                let mut rng = rng::Rng::new(rng::mix(&[seed, 0x50c, i]));
                let mut cfg = gen::GenCfg::basic(vec![]);
                cfg.tame = rng.chance(1, 2);
                cfg.allow_time = false; // python datetime has no nanoseconds / wide years
                let ty = gen::random_ty(&mut rng, 1);
                let d = 1 + rng.below(3) as u32;
                let e = gen::Gen::new(&mut rng, cfg).expr(&ty, d);
                emit(&gen::render(&e, gen::Ws::Pretty, gen::Parens::Minimal, None).text);
            }
        }
        "ladder" => {
            // rvmon ladder <kind> <depth> [thread]  (probe: prints the outcome or dies)
            let kind = &args[2];
            let depth: usize = args[3].parse().unwrap();
            let f = props::c01::LADDERS.iter().find(|(n, _)| n == kind).expect("kind").1;
            let src = f(depth);
            if args.len() > 4 {
                let h = std::thread::Builder::new().spawn(move || mon::run1(&src, &[])).unwrap();
                println!("{}", mon::clip(&h.join().unwrap().show(), 200));
            } else {
                println!("{}", mon::clip(&mon::run1(&src, &[]).show(), 200));
            }
        }
        "run" => {
            if args.len() < 3 {
                usage();
            }
            let prop = args[2].clone();
            let mut seed = 1u64;
            let mut tier = Tier::Quick;
            let mut shard = (0u64, 1u64);
            let mut out = None;
            let mut journal = None;
            let mut hashes = None;
            let mut only = None;
            let mut resume = None;
            let mut rest = Vec::new();
            let mut i = 3;
            while i < args.len() {
                let a = args[i].as_str();
                let mut val = || {
                    i += 1;
                    args.get(i).cloned().unwrap_or_else(|| usage())
                };
                match a {
                    "--seed" => seed = val().parse().unwrap_or_else(|_| usage()),
                    "--tier" => {
                        tier = match val().as_str() {
                            "quick" => Tier::Quick,
                            "thorough" => Tier::Thorough,
                            _ => usage(),
                        }
                    }
                    "--shard" => {
                        let v = val();
                        let (a, b) = v.split_once('/').unwrap_or_else(|| usage());
                        shard = (a.parse().unwrap_or_else(|_| usage()), b.parse().unwrap_or_else(|_| usage()));
                    }
                    "--out" => out = Some(val()),
                    "--journal" => journal = Some(val()),
                    "--hashes" => hashes = Some(val()),
                    "--only" => only = Some(parse_pair(&val())),
                    "--resume" => resume = Some(parse_pair(&val())),
                    other => rest.push(other.to_string()),
                }
                i += 1;
            }
            let out = out.unwrap_or_else(|| usage());
            let mut ctx = Ctx::new(
                &prop,
                seed,
                tier,
                shard.0,
                shard.1,
                &out,
                journal.as_deref(),
                hashes.as_deref(),
                only,
                resume,
                rest,
            );
            // a panic that escapes here is a harness bug, not an observation: say so loudly
            match mon::catch(|| props::run(&mut ctx)) {
                Ok(true) => {}
                Ok(false) => {
                    eprintln!("unknown property {}", prop);
                    std::process::exit(2);
                }
                Err((m, l)) => {
                    eprintln!("HARNESS-PANIC: {} at {}", m, l);
                    std::process::exit(101);
                }
            }
            ctx.finish();
        }
        _ => usage(),
    }
}
