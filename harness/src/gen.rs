//! Expression trees, token-level renderer with span recording, and the typed random generator.
//!
//! The renderer is the independent ground truth for structure (C02), free variables (C17),
//! spans (C18) and the SQL source tree (C20): it produces a token list, lays it out with the
//! chosen whitespace policy and records, for every node, the exact (line, col) span in
//! characters that the node occupies.

use rscel::CelValue;

use crate::rng::Rng;
use crate::vals;

#[derive(Clone, Copy, PartialEq, Eq, Debug, Hash)]
pub enum BinOp {
    Or,
    And,
    Lt,
    Le,
    Gt,
    Ge,
    Eq,
    Ne,
    In,
    Add,
    Sub,
    Mul,
    Div,
    Mod,
}

pub const ALL_BINOPS: [BinOp; 14] = [
    BinOp::Or,
    BinOp::And,
    BinOp::Lt,
    BinOp::Le,
    BinOp::Gt,
    BinOp::Ge,
    BinOp::Eq,
    BinOp::Ne,
    BinOp::In,
    BinOp::Add,
    BinOp::Sub,
    BinOp::Mul,
    BinOp::Div,
    BinOp::Mod,
];

impl BinOp {
    pub fn text(self) -> &'static str {
        match self {
            BinOp::Or => "||",
            BinOp::And => "&&",
            BinOp::Lt => "<",
            BinOp::Le => "<=",
            BinOp::Gt => ">",
            BinOp::Ge => ">=",
            BinOp::Eq => "==",
            BinOp::Ne => "!=",
            BinOp::In => "in",
            BinOp::Add => "+",
            BinOp::Sub => "-",
            BinOp::Mul => "*",
            BinOp::Div => "/",
            BinOp::Mod => "%",
        }
    }
    /// precedence level as the CEL grammar defines it (higher binds tighter)
    pub fn level(self) -> u8 {
        match self {
            BinOp::Or => 1,
            BinOp::And => 2,
            BinOp::Lt | BinOp::Le | BinOp::Gt | BinOp::Ge | BinOp::Eq | BinOp::Ne | BinOp::In => 3,
            BinOp::Add | BinOp::Sub => 4,
            BinOp::Mul | BinOp::Div | BinOp::Mod => 5,
        }
    }
}

pub const L_TERN: u8 = 0;
pub const L_UNARY: u8 = 6;
pub const L_MEMBER: u8 = 7;

#[derive(Clone, Debug, PartialEq)]
pub enum Pat {
    Any,
    Type(String),
    /// comparison pattern: optional operator text ("", "==", "!=", ">", ">=", "<", "<=") + operand
    Cmp(String, E),
}

#[derive(Clone, Debug, PartialEq)]
pub enum Seg {
    Lit(String),
    Expr(E),
}

#[derive(Clone, Debug, PartialEq)]
pub enum E {
    /// a value spelled as a literal (vals::spell); `Lit` of negative numbers etc. renders with parens
    Lit(CelValue),
    /// verbatim atomic source (a single primary: literal spelling chosen by the caller)
    Raw(String),
    Var(String),
    /// a run of `n` identical unary operators ('!' or '-') applied to a member-level operand
    Un(char, usize, Box<E>),
    Bin(BinOp, Box<E>, Box<E>),
    Tern(Box<E>, Box<E>, Box<E>),
    List(Vec<E>),
    Map(Vec<(E, E)>),
    Index(Box<E>, Box<E>),
    Field(Box<E>, String),
    Call(String, Vec<E>),
    Method(Box<E>, String, Vec<E>),
    Match(Box<E>, Vec<(Pat, E)>),
    FStr(Vec<Seg>),
    /// explicit parentheses written by the generator
    Paren(Box<E>),
}


/// Static upper estimate of (result size, evaluation work) of a generated tree, in "elements" - used to keep
/// generated programs inside a work budget. The language has no loops but `reduce(acc, x, acc + acc, ..)` doubles
/// per element, and a reduce whose receiver is the accumulator of an enclosing reduce grows as a tower
/// (2, 8, 512, 2^513 elements): such a program is legitimately non-returning and says nothing about any property.
/// Free variables are assumed to hold at most `FREE` elements.
pub fn cost(e: &E) -> (f64, f64) {
    let mut env: Vec<(String, f64)> = Vec::new();
    cost_in(e, &mut env)
}

const FREE: f64 = 12.0;
const CAP: f64 = 1e30;

fn cost_in(e: &E, env: &mut Vec<(String, f64)>) -> (f64, f64) {
    fn sum(items: &[&E], env: &mut Vec<(String, f64)>) -> (f64, f64) {
        let mut s = 0.0;
        let mut w = 0.0;
        for i in items {
            let (a, b) = cost_in(i, env);
            s += a;
            w += b;
        }
        (s.min(CAP), w.min(CAP))
    }
    match e {
        E::Lit(v) => {
            let n = match v {
                CelValue::List(l) => l.len() as f64 + 1.0,
                CelValue::Map(m) => m.len() as f64 + 1.0,
                CelValue::String(s) => s.len() as f64 + 1.0,
                CelValue::Bytes(b) => b.len() as f64 + 1.0,
                _ => 1.0,
            };
            (n, 1.0)
        }
        E::Raw(t) => (t.len() as f64 + 1.0, 1.0),
        E::Var(n) => (env.iter().rev().find(|(k, _)| k == n).map(|(_, s)| *s).unwrap_or(FREE), 1.0),
        E::Un(_, _, a) | E::Paren(a) => cost_in(a, env),
        E::Field(a, _) => cost_in(a, env),
        E::Bin(_, a, b) | E::Index(a, b) => {
            let (s, w) = sum(&[&**a, &**b], env);
            (s, w + s)
        }
        E::Tern(c, a, b) => {
            let (_, wc) = cost_in(c, env);
            let (sa, wa) = cost_in(a, env);
            let (sb, wb) = cost_in(b, env);
            (sa.max(sb), (wc + wa + wb).min(CAP))
        }
        E::List(items) => {
            let v: Vec<&E> = items.iter().collect();
            let (s, w) = sum(&v, env);
            (s + 1.0, w + s)
        }
        E::Map(items) => {
            let v: Vec<&E> = items.iter().flat_map(|(k, v)| [k, v]).collect();
            let (s, w) = sum(&v, env);
            (s + 1.0, w + s)
        }
        E::Call(_, args) => {
            let v: Vec<&E> = args.iter().collect();
            let (s, w) = sum(&v, env);
            (s + 8.0, w + s)
        }
        E::Match(s, cases) => {
            let (_, mut w) = cost_in(s, env);
            let mut size: f64 = 1.0;
            for (p, b) in cases {
                if let Pat::Cmp(_, pe) = p {
                    w += cost_in(pe, env).1;
                }
                let (sb, wb) = cost_in(b, env);
                size = size.max(sb);
                w += wb;
            }
            (size, w.min(CAP))
        }
        E::FStr(segs) => {
            let mut s = 1.0;
            let mut w = 1.0;
            for g in segs {
                match g {
                    Seg::Lit(t) => s += t.len() as f64,
                    Seg::Expr(x) => {
                        let (a, b) = cost_in(x, env);
                        s += a + 24.0;
                        w += b + a;
                    }
                }
            }
            (s.min(CAP), w.min(CAP))
        }
        E::Method(recv, name, args) => {
            let is_macro = MACRO_NAMES.contains(&name.as_str()) && args.len() >= 2 && matches!(args[0], E::Var(_));
            let (n, wr) = cost_in(recv, env);
            if !is_macro {
                let v: Vec<&E> = args.iter().collect();
                let (s, w) = sum(&v, env);
                // replace / matchReplace / join can multiply receiver and argument sizes
                let size = if name.contains("eplace") || name == "join" { (n * (s + 1.0)).min(CAP) } else { n + s + 8.0 };
                return (size, (wr + w + size).min(CAP));
            }
            let var_of = |e: &E| if let E::Var(v) = e { v.clone() } else { String::new() };
            if name == "reduce" && args.len() == 4 {
                let (acc, x) = (var_of(&args[0]), var_of(&args[1]));
                let (mut s, mut w) = cost_in(&args[3], env);
                w += wr;
                let iters = n.min(64.0) as usize;
                for _ in 0..iters {
                    env.push((acc.clone(), s));
                    env.push((x.clone(), n));
                    let (s2, w2) = cost_in(&args[2], env);
                    env.pop();
                    env.pop();
                    s = s2;
                    w = (w + w2).min(CAP);
                    if s >= CAP {
                        break;
                    }
                }
                if n > 64.0 {
                    // more elements than simulated: scale the work, keep the last size (growth beyond that is caught by the cap)
                    w = (w * (n / 64.0)).min(CAP);
                }
                return (s.min(CAP), w);
            }
            let x = var_of(&args[0]);
            env.push((x, n));
            let mut body_s = 1.0;
            let mut body_w = 0.0;
            for a in &args[1..] {
                let (s, w) = cost_in(a, env);
                body_s = s;
                body_w += w;
            }
            env.pop();
            let size = if name == "map" { (n * body_s).min(CAP) } else if name == "filter" { n } else { 1.0 };
            (size, (wr + n * body_w + size).min(CAP))
        }
    }
}

/// true when the tree is outside the generators' work budget
pub fn too_heavy(e: &E) -> bool {
    let (s, w) = cost(e);
    s > 20_000.0 || w > 400_000.0
}

pub fn var(s: &str) -> E {
    E::Var(s.to_string())
}
pub fn lit<T: Into<CelValue>>(v: T) -> E {
    E::Lit(v.into())
}
pub fn bin(op: BinOp, a: E, b: E) -> E {
    E::Bin(op, Box::new(a), Box::new(b))
}
pub fn call(name: &str, args: Vec<E>) -> E {
    E::Call(name.to_string(), args)
}
pub fn method(recv: E, name: &str, args: Vec<E>) -> E {
    E::Method(Box::new(recv), name.to_string(), args)
}
pub fn tern(c: E, a: E, b: E) -> E {
    E::Tern(Box::new(c), Box::new(a), Box::new(b))
}

impl E {
    pub fn level(&self) -> u8 {
        match self {
            E::Tern(..) | E::Match(..) => L_TERN,
            E::Bin(op, ..) => op.level(),
            E::Un(..) => L_UNARY,
            E::Lit(v) => {
                // spelled negative numbers / non-finite doubles come with their own parentheses
                let _ = v;
                L_MEMBER
            }
            _ => L_MEMBER,
        }
    }

    pub fn size(&self) -> usize {
        let mut n = 1;
        self.for_children(&mut |c| n += c.size());
        n
    }

    /// pre-order visit of every node
    pub fn visit(&self, f: &mut dyn FnMut(&E)) {
        f(self);
        self.for_children(&mut |c| c.visit(f));
    }

    /// rebuild the tree bottom-up; `f` may replace a (rebuilt) node
    pub fn map_tree(&self, f: &dyn Fn(&E) -> Option<E>) -> E {
        let m = |x: &E| Box::new(x.map_tree(f));
        let rebuilt = match self {
            E::Lit(_) | E::Raw(_) | E::Var(_) => self.clone(),
            E::Un(c, n, a) => E::Un(*c, *n, m(a)),
            E::Paren(a) => E::Paren(m(a)),
            E::Field(a, k) => E::Field(m(a), k.clone()),
            E::Bin(op, a, b) => E::Bin(*op, m(a), m(b)),
            E::Index(a, b) => E::Index(m(a), m(b)),
            E::Tern(a, b, c) => E::Tern(m(a), m(b), m(c)),
            E::List(v) => E::List(v.iter().map(|x| x.map_tree(f)).collect()),
            E::Call(n, v) => E::Call(n.clone(), v.iter().map(|x| x.map_tree(f)).collect()),
            E::Map(v) => E::Map(v.iter().map(|(k, x)| (k.map_tree(f), x.map_tree(f))).collect()),
            E::Method(r, n, v) => E::Method(m(r), n.clone(), v.iter().map(|x| x.map_tree(f)).collect()),
            E::Match(s, cases) => E::Match(
                m(s),
                cases
                    .iter()
                    .map(|(p, e)| {
                        let p2 = match p {
                            Pat::Cmp(o, pe) => Pat::Cmp(o.clone(), pe.map_tree(f)),
                            other => other.clone(),
                        };
                        (p2, e.map_tree(f))
                    })
                    .collect(),
            ),
            E::FStr(segs) => E::FStr(
                segs.iter()
                    .map(|s| match s {
                        Seg::Expr(e) => Seg::Expr(e.map_tree(f)),
                        Seg::Lit(t) => Seg::Lit(t.clone()),
                    })
                    .collect(),
            ),
        };
        f(&rebuilt).unwrap_or(rebuilt)
    }

    pub fn for_children(&self, f: &mut dyn FnMut(&E)) {
        match self {
            E::Lit(_) | E::Raw(_) | E::Var(_) => {}
            E::Un(_, _, a) | E::Paren(a) | E::Field(a, _) => f(a),
            E::Bin(_, a, b) | E::Index(a, b) => {
                f(a);
                f(b)
            }
            E::Tern(a, b, c) => {
                f(a);
                f(b);
                f(c)
            }
            E::List(v) | E::Call(_, v) => v.iter().for_each(|x| f(x)),
            E::Map(v) => v.iter().for_each(|(k, x)| {
                f(k);
                f(x)
            }),
            E::Method(r, _, v) => {
                f(r);
                v.iter().for_each(|x| f(x))
            }
            E::Match(s, cases) => {
                f(s);
                for (p, e) in cases {
                    if let Pat::Cmp(_, pe) = p {
                        f(pe)
                    }
                    f(e)
                }
            }
            E::FStr(segs) => {
                for s in segs {
                    if let Seg::Expr(e) = s {
                        f(e)
                    }
                }
            }
        }
    }

    /// rebuild the tree with `f` applied bottom-up to every node
    pub fn map(&self, f: &mut dyn FnMut(E) -> E) -> E {
        let n = match self {
            E::Lit(_) | E::Raw(_) | E::Var(_) => self.clone(),
            E::Un(c, n, a) => E::Un(*c, *n, Box::new(a.map(f))),
            E::Paren(a) => E::Paren(Box::new(a.map(f))),
            E::Field(a, s) => E::Field(Box::new(a.map(f)), s.clone()),
            E::Bin(op, a, b) => E::Bin(*op, Box::new(a.map(f)), Box::new(b.map(f))),
            E::Index(a, b) => E::Index(Box::new(a.map(f)), Box::new(b.map(f))),
            E::Tern(a, b, c) => E::Tern(Box::new(a.map(f)), Box::new(b.map(f)), Box::new(c.map(f))),
            E::List(v) => E::List(v.iter().map(|x| x.map(f)).collect()),
            E::Call(n, v) => E::Call(n.clone(), v.iter().map(|x| x.map(f)).collect()),
            E::Map(v) => E::Map(v.iter().map(|(k, x)| (k.map(f), x.map(f))).collect()),
            E::Method(r, n, v) => E::Method(
                Box::new(r.map(f)),
                n.clone(),
                v.iter().map(|x| x.map(f)).collect(),
            ),
            E::Match(s, cases) => E::Match(
                Box::new(s.map(f)),
                cases
                    .iter()
                    .map(|(p, e)| {
                        let p2 = match p {
                            Pat::Cmp(o, pe) => Pat::Cmp(o.clone(), pe.map(f)),
                            other => other.clone(),
                        };
                        (p2, e.map(f))
                    })
                    .collect(),
            ),
            E::FStr(segs) => E::FStr(
                segs.iter()
                    .map(|s| match s {
                        Seg::Expr(e) => Seg::Expr(e.map(f)),
                        l => l.clone(),
                    })
                    .collect(),
            ),
        };
        f(n)
    }
}

pub const MACRO_NAMES: [&str; 6] = ["all", "exists", "exists_one", "filter", "map", "reduce"];

/// Free variables read by the expression: identifiers in variable position that are not bound by
/// an enclosing macro. `idents` receives every identifier spelled anywhere in the source.
pub fn free_vars(e: &E, bound: &mut Vec<String>, free: &mut Vec<String>, idents: &mut Vec<String>) {
    match e {
        E::Var(n) => {
            idents.push(n.clone());
            if !bound.contains(n) && !free.contains(n) {
                free.push(n.clone());
            }
        }
        E::Method(recv, name, args) if MACRO_NAMES.contains(&name.as_str()) => {
            idents.push(name.clone());
            free_vars(recv, bound, free, idents);
            let nvars = if name == "reduce" { 2 } else { 1 };
            let mut pushed = 0;
            for (i, a) in args.iter().enumerate() {
                if i < nvars {
                    if let E::Var(v) = a {
                        idents.push(v.clone());
                        continue;
                    }
                }
                if i == nvars {
                    for a2 in args.iter().take(nvars) {
                        if let E::Var(v) = a2 {
                            bound.push(v.clone());
                            pushed += 1;
                        }
                    }
                }
                if name == "reduce" && i == 3 {
                    // the seed is evaluated outside the loop scope
                    let saved: Vec<String> = bound.drain(bound.len() - pushed..).collect();
                    free_vars(a, bound, free, idents);
                    bound.extend(saved);
                } else {
                    free_vars(a, bound, free, idents);
                }
            }
            for _ in 0..pushed {
                bound.pop();
            }
        }
        E::Call(name, args) => {
            idents.push(name.clone());
            for a in args {
                free_vars(a, bound, free, idents);
            }
        }
        E::Method(recv, name, args) => {
            idents.push(name.clone());
            free_vars(recv, bound, free, idents);
            for a in args {
                free_vars(a, bound, free, idents);
            }
        }
        E::Field(a, name) => {
            idents.push(name.clone());
            free_vars(a, bound, free, idents);
        }
        E::Match(s, cases) => {
            free_vars(s, bound, free, idents);
            for (p, b) in cases {
                match p {
                    Pat::Cmp(_, pe) => free_vars(pe, bound, free, idents),
                    Pat::Type(t) => idents.push(t.clone()),
                    Pat::Any => idents.push("_".to_string()),
                }
                free_vars(b, bound, free, idents);
            }
        }
        other => other.for_children(&mut |c| free_vars(c, bound, free, idents)),
    }
}

// ------------------------------------------------------------------------------------------
// rendering

#[derive(Clone, Debug)]
pub struct Tok {
    pub text: String,
    /// starts / ends with an identifier-like character (needs white space next to another one)
    pub wordy: bool,
    pub line: usize,
    pub col: usize,
    pub end_line: usize,
    pub end_col: usize,
}

#[derive(Clone, Debug)]
pub struct NodeSpan {
    pub kind: &'static str,
    pub first_tok: usize,
    pub last_tok: usize,
    pub depth: usize,
    /// true when the AST has a node with exactly this span
    pub has_ast: bool,
    /// the sub-expression rendered here (only kept when asked for)
    pub expr: Option<Box<E>>,
}

#[derive(Clone, Copy, PartialEq, Debug)]
pub enum Ws {
    /// single blanks around binary operators, none elsewhere
    Pretty,
    /// only the white space the lexer needs
    Tight,
    /// random runs of ' ', '\t', '\n' between any two tokens
    Random,
}

#[derive(Clone, Copy, PartialEq, Debug)]
pub enum Parens {
    Minimal,
    /// every non-atomic sub-expression wrapped in parentheses that agree with the structure
    Redundant,
    /// random extra agreeing parentheses
    Random,
}

pub struct Rendered {
    pub text: String,
    pub toks: Vec<Tok>,
    pub spans: Vec<NodeSpan>,
}

impl Rendered {
    pub fn span_of(&self, s: &NodeSpan) -> ((usize, usize), (usize, usize)) {
        let a = &self.toks[s.first_tok];
        let b = &self.toks[s.last_tok];
        ((a.line, a.col), (b.end_line, b.end_col))
    }
}

struct R<'a> {
    toks: Vec<(String, bool, bool)>, // text, wordy, space_before_pretty
    spans: Vec<NodeSpan>,
    parens: Parens,
    rng: Option<&'a mut Rng>,
    depth: usize,
    keep_exprs: bool,
    in_pattern: usize,
}

fn is_wordy(s: &str) -> bool {
    let f = s.chars().next().unwrap_or(' ');
    let l = s.chars().last().unwrap_or(' ');
    let w = |c: char| c.is_alphanumeric() || c == '_';
    w(f) || w(l)
}

const TYPE_WORDS: [&str; 13] = [
    "bool", "int", "uint", "float", "double", "string", "bytes", "type", "timestamp", "duration", "null_type", "dyn", "_",
];

fn first_word(e: &E) -> Option<String> {
    match e {
        E::Var(n) | E::Call(n, _) => Some(n.clone()),
        E::Lit(v) => crate::vals::spell(v).map(|s| s.chars().take_while(|c| c.is_ascii_alphanumeric() || *c == '_').collect()),
        E::Raw(s) => Some(s.chars().take_while(|c| c.is_ascii_alphanumeric() || *c == '_').collect()),
        E::Bin(_, a, _) | E::Tern(a, _, _) | E::Index(a, _) | E::Field(a, _) | E::Method(a, _, _) => first_word(a),
        _ => None,
    }
}

fn pattern_needs_parens(e: &E) -> bool {
    first_word(e).map(|w| TYPE_WORDS.contains(&w.as_str())).unwrap_or(false)
}

/// `1.f` would lex as the double `1.` followed by `f`: numeric receivers need parentheses
fn numeric_atom(e: &E) -> bool {
    match e {
        E::Lit(CelValue::Int(_)) | E::Lit(CelValue::UInt(_)) | E::Lit(CelValue::Float(_)) => true,
        E::Raw(s) => s.chars().next().map(|c| c.is_ascii_digit() || c == '.').unwrap_or(false),
        _ => false,
    }
}

/// Value -> tree made of single-token literals (negative numbers as unary minus, lists and maps
/// as constructions), so that every part has its own AST node and span.
pub fn structured(v: &CelValue) -> E {
    match v {
        CelValue::Int(i) if *i == i64::MIN => bin(
            BinOp::Sub,
            E::Un('-', 1, Box::new(lit(i64::MAX))),
            lit(1),
        ),
        CelValue::Int(i) if *i < 0 => E::Un('-', 1, Box::new(lit(-*i))),
        CelValue::Float(f) if f.is_nan() => bin(BinOp::Div, lit(0.0), lit(0.0)),
        CelValue::Float(f) if f.is_infinite() => {
            let q = bin(BinOp::Div, lit(1.0), lit(0.0));
            if *f < 0.0 {
                E::Un('-', 1, Box::new(E::Paren(Box::new(q))))
            } else {
                q
            }
        }
        CelValue::Float(f) if f.is_sign_negative() => E::Un('-', 1, Box::new(lit(-*f))),
        CelValue::TimeStamp(t) => call(
            "timestamp",
            vec![lit(t.to_rfc3339_opts(chrono::SecondsFormat::Nanos, true).as_str())],
        ),
        CelValue::Duration(d) => {
            let mut secs = d.num_seconds();
            let mut nanos = d.subsec_nanos() as i64;
            if nanos < 0 {
                secs -= 1;
                nanos += 1_000_000_000;
            }
            call("duration", vec![structured(&secs.into()), lit(nanos)])
        }
        CelValue::Type(_) => match crate::vals::spell(v) {
            Some(s) if s.chars().all(|c| c.is_ascii_alphanumeric() || c == '_') => E::Var(s),
            _ => call("type", vec![E::List(vec![])]),
        },
        CelValue::List(l) => E::List(l.iter().map(structured).collect()),
        CelValue::Map(m) => {
            let mut keys: Vec<&String> = m.keys().collect();
            keys.sort();
            E::Map(keys.into_iter().map(|k| (lit(k.as_str()), structured(&m[k]))).collect())
        }
        other => E::Lit(other.clone()),
    }
}

impl<'a> R<'a> {
    fn tok(&mut self, t: &str) {
        self.toks.push((t.to_string(), is_wordy(t), false));
    }
    fn op(&mut self, t: &str) {
        self.toks.push((t.to_string(), is_wordy(t), true));
    }
    fn open(&mut self, kind: &'static str, has_ast: bool) -> usize {
        self.spans.push(NodeSpan {
            kind,
            first_tok: self.toks.len(),
            last_tok: 0,
            depth: self.depth,
            // spans inside match patterns are outside the property (and outside the AST walk)
            has_ast: has_ast && self.in_pattern == 0,
            expr: None,
        });
        self.depth += 1;
        self.spans.len() - 1
    }
    fn open_e(&mut self, kind: &'static str, has_ast: bool, e: &E) -> usize {
        let id = self.open(kind, has_ast);
        if self.keep_exprs {
            self.spans[id].expr = Some(Box::new(e.clone()));
        }
        id
    }
    fn close(&mut self, id: usize) {
        self.depth -= 1;
        self.spans[id].last_tok = self.toks.len() - 1;
    }

    fn want_extra_parens(&mut self, e: &E) -> bool {
        let atomic = matches!(e, E::Lit(_) | E::Raw(_) | E::Var(_) | E::Paren(_));
        match self.parens {
            Parens::Minimal => false,
            Parens::Redundant => !atomic,
            Parens::Random => match self.rng.as_mut() {
                Some(r) => r.chance(1, 4),
                None => false,
            },
        }
    }

    /// render `e` in a position that requires at least precedence `min`
    fn expr(&mut self, e: &E, min: u8, chain_inner: bool) {
        let need = e.level() < min;
        let extra = !need && self.want_extra_parens(e);
        if need || extra {
            let id = self.open_e("paren", true, e);
            self.tok("(");
            self.node(e, false);
            self.tok(")");
            self.close(id);
        } else {
            self.node(e, chain_inner);
        }
    }

    fn args(&mut self, args: &[E]) {
        let id = self.open("arglist", true);
        self.tok("(");
        for (i, a) in args.iter().enumerate() {
            if i > 0 {
                self.tok(",");
            }
            self.expr(a, L_TERN, false);
        }
        self.tok(")");
        self.close(id);
    }

    fn node(&mut self, e: &E, chain_inner: bool) {
        match e {
            E::Lit(v) => {
                let s = vals::spell(v).unwrap_or_else(|| "null".to_string());
                let id = self.open_e("lit", true, e);
                // multi-token spellings such as (-5) or timestamp('..') are emitted as one opaque token
                self.tok(&s);
                self.close(id);
            }
            E::Raw(s) => {
                let id = self.open_e("raw", true, e);
                self.tok(s);
                self.close(id);
            }
            E::Var(n) => {
                let id = self.open_e("ident", true, e);
                self.tok(n);
                self.close(id);
            }
            E::Paren(a) => {
                let id = self.open_e("paren", true, e);
                self.tok("(");
                self.expr(a, L_TERN, false);
                self.tok(")");
                self.close(id);
            }
            E::Un(c, n, a) => {
                let id = self.open_e("unary", true, e);
                let first = self.toks.len();
                for _ in 0..*n {
                    self.tok(&c.to_string());
                }
                // the AST keeps the run as a right-nested list: one node per suffix of the run
                for k in 0..*n {
                    self.spans.push(NodeSpan {
                        kind: "runlist",
                        first_tok: first + k,
                        last_tok: first + n - 1,
                        depth: self.depth,
                        has_ast: self.in_pattern == 0,
                        expr: None,
                    });
                }
                self.expr(a, L_MEMBER, false);
                self.close(id);
            }
            E::Bin(op, a, b) => {
                let id = self.open_e("binary", true, e);
                let lv = op.level();
                self.expr(a, lv, false);
                self.op(op.text());
                self.expr(b, lv + 1, false);
                self.close(id);
            }
            E::Tern(c, a, b) => {
                let id = self.open_e("ternary", true, e);
                self.expr(c, 1, false);
                self.op("?");
                self.expr(a, 1, false);
                self.op(":");
                self.expr(b, L_TERN, false);
                self.close(id);
            }
            E::List(v) => {
                let id = self.open_e("list", true, e);
                self.tok("[");
                for (i, x) in v.iter().enumerate() {
                    if i > 0 {
                        self.tok(",");
                    }
                    self.expr(x, L_TERN, false);
                }
                self.tok("]");
                self.close(id);
            }
            E::Map(v) => {
                let id = self.open_e("map", true, e);
                self.tok("{");
                for (i, (k, x)) in v.iter().enumerate() {
                    if i > 0 {
                        self.tok(",");
                    }
                    let init = self.open("objinit", true);
                    self.expr(k, L_TERN, false);
                    self.tok(":");
                    self.expr(x, L_TERN, false);
                    self.close(init);
                }
                self.tok("}");
                self.close(id);
            }
            E::Index(a, i) => {
                let id = self.open_e("member", !chain_inner, e);
                self.expr(a, L_MEMBER, true);
                let m = self.open("memberprime", true);
                self.tok("[");
                self.expr(i, L_TERN, false);
                self.tok("]");
                self.close(m);
                self.close(id);
            }
            E::Field(a, f) => {
                let id = self.open_e("member", !chain_inner, e);
                if numeric_atom(a) {
                    let a2 = E::Paren(a.clone());
                    self.expr(&a2, L_MEMBER, true);
                } else {
                    self.expr(a, L_MEMBER, true);
                }
                let m = self.open("memberprime", true);
                self.tok(".");
                let fi = self.open("fieldident", true);
                self.tok(f);
                self.close(fi);
                self.close(m);
                self.close(id);
            }
            E::Call(n, args) => {
                let id = self.open_e("member", !chain_inner, e);
                let p = self.open("ident", true);
                self.tok(n);
                self.close(p);
                self.args(args);
                self.close(id);
            }
            E::Method(r, n, args) => {
                let id = self.open_e("member", !chain_inner, e);
                if numeric_atom(r) {
                    let r2 = E::Paren(r.clone());
                    self.expr(&r2, L_MEMBER, true);
                } else {
                    self.expr(r, L_MEMBER, true);
                }
                let m = self.open("memberprime", true);
                self.tok(".");
                let fi = self.open("fieldident", true);
                self.tok(n);
                self.close(fi);
                self.close(m);
                self.args(args);
                self.close(id);
            }
            E::Match(s, cases) => {
                let id = self.open_e("match", true, e);
                self.tok("match");
                self.expr(s, L_TERN, false);
                self.tok("{");
                for (i, (p, b)) in cases.iter().enumerate() {
                    if i > 0 {
                        self.tok(",");
                    }
                    let cs = self.open("case", false);
                    self.tok("case");
                    let ps = self.open("pattern", false);
                    self.in_pattern += 1;
                    match p {
                        Pat::Any => self.tok("_"),
                        Pat::Type(t) => self.tok(t),
                        Pat::Cmp(o, pe) => {
                            if !o.is_empty() {
                                self.tok(o);
                            }
                            // `case int:` / `case timestamp(..):` / `case _:` would be read as a
                            // type or wildcard pattern: such operands are parenthesised
                            if o.is_empty() && pattern_needs_parens(pe) {
                                let p = E::Paren(Box::new(pe.clone()));
                                self.expr(&p, 1, false);
                            } else {
                                self.expr(pe, 1, false);
                            }
                        }
                    }
                    self.in_pattern -= 1;
                    self.close(ps);
                    self.tok(":");
                    self.expr(b, L_TERN, false);
                    self.close(cs);
                }
                self.tok("}");
                self.close(id);
            }
            E::FStr(segs) => {
                let mut s = String::from("f'");
                for seg in segs {
                    match seg {
                        Seg::Lit(l) => {
                            for c in l.chars() {
                                match c {
                                    '{' => s.push_str("{{"),
                                    '}' => s.push_str("}}"),
                                    '\\' => s.push_str("\\\\"),
                                    '\'' => s.push_str("\\'"),
                                    '\n' => s.push_str("\\n"),
                                    c => s.push(c),
                                }
                            }
                        }
                        Seg::Expr(e) => {
                            // embedded expressions are rendered tight, double-quoted strings inside
                            let inner = render(e, Ws::Tight, Parens::Minimal, None).text;
                            s.push('{');
                            s.push_str(&inner.replace('\'', "\""));
                            s.push('}');
                        }
                    }
                }
                s.push('\'');
                let id = self.open_e("fstring", true, e);
                self.tok(&s);
                self.close(id);
            }
        }
    }
}

/// Render a tree. `rng` is needed for `Ws::Random` / `Parens::Random`.
pub fn render(e: &E, ws: Ws, parens: Parens, rng: Option<&mut Rng>) -> Rendered {
    render_opts(e, ws, parens, rng, false)
}

pub fn render_opts(e: &E, ws: Ws, parens: Parens, rng: Option<&mut Rng>, keep_exprs: bool) -> Rendered {
    let mut r = R {
        toks: Vec::new(),
        spans: Vec::new(),
        parens,
        rng,
        depth: 0,
        keep_exprs,
        in_pattern: 0,
    };
    r.expr(e, L_TERN, false);
    let raw = std::mem::take(&mut r.toks);
    let spans = std::mem::take(&mut r.spans);
    let mut rng = r.rng.take();
    // layout
    let mut text = String::new();
    let mut toks = Vec::with_capacity(raw.len());
    let (mut line, mut col) = (0usize, 0usize);
    let mut put = |s: &str, text: &mut String, line: &mut usize, col: &mut usize| {
        for c in s.chars() {
            text.push(c);
            if c == '\n' {
                *line += 1;
                *col = 0;
            } else {
                *col += 1;
            }
        }
    };
    for (i, (t, wordy, spaced)) in raw.iter().enumerate() {
        if i > 0 {
            let prev = &raw[i - 1];
            let must = prev.1 && *wordy;
            let sep: String = match ws {
                Ws::Tight => {
                    if must {
                        " ".to_string()
                    } else {
                        String::new()
                    }
                }
                Ws::Pretty => {
                    if must || *spaced || prev.2 || prev.0 == "," || prev.0 == ":" {
                        " ".to_string()
                    } else {
                        String::new()
                    }
                }
                Ws::Random => {
                    let r = rng.as_mut().expect("rng for random white space");
                    let n = if must { 1 + r.below(3) } else { r.below(3) };
                    (0..n).map(|_| *r.pick(&[' ', ' ', '\t', '\n'])).collect()
                }
            };
            put(&sep, &mut text, &mut line, &mut col);
        }
        let (l0, c0) = (line, col);
        put(t, &mut text, &mut line, &mut col);
        toks.push(Tok {
            text: t.clone(),
            wordy: *wordy,
            line: l0,
            col: c0,
            end_line: line,
            end_col: col,
        });
    }
    Rendered { text, toks, spans }
}

pub fn src(e: &E) -> String {
    render(e, Ws::Pretty, Parens::Minimal, None).text
}

// ------------------------------------------------------------------------------------------
// typed random generation

#[derive(Clone, Debug, PartialEq)]
pub enum Ty {
    Int,
    UInt,
    Dbl,
    Bool,
    Str,
    Bytes,
    Null,
    Ts,
    Dur,
    Type,
    List(Box<Ty>),
    Map(Box<Ty>),
}

pub const SCALARS: [Ty; 9] = [
    Ty::Int,
    Ty::UInt,
    Ty::Dbl,
    Ty::Bool,
    Ty::Str,
    Ty::Bytes,
    Ty::Null,
    Ty::Ts,
    Ty::Dur,
];

pub const MAP_KEYS: [&str; 6] = ["a", "b", "k", "size", "é", "map"];

pub fn random_ty(rng: &mut Rng, depth: u32) -> Ty {
    if depth > 0 && rng.chance(1, 4) {
        if rng.chance(1, 2) {
            Ty::List(Box::new(random_ty(rng, depth - 1)))
        } else {
            Ty::Map(Box::new(random_ty(rng, depth - 1)))
        }
    } else {
        // numbers, bools and strings dominate
        match rng.below(14) {
            0..=3 => Ty::Int,
            4 => Ty::UInt,
            5 | 6 => Ty::Dbl,
            7 | 8 => Ty::Bool,
            9 | 10 => Ty::Str,
            11 => Ty::Bytes,
            12 => {
                if rng.chance(1, 2) {
                    Ty::Ts
                } else {
                    Ty::Dur
                }
            }
            _ => Ty::Null,
        }
    }
}

/// A value of the given type; `tame` keeps numbers small so arithmetic mostly stays in range.
pub fn value_of(rng: &mut Rng, ty: &Ty, tame: bool) -> CelValue {
    match ty {
        Ty::Int => {
            if tame || rng.chance(3, 4) {
                CelValue::from_int(rng.range(-9, 12))
            } else {
                CelValue::from_int(*rng.pick(&vals::int_pool()))
            }
        }
        Ty::UInt => {
            if tame || rng.chance(3, 4) {
                CelValue::from_uint(rng.below(12) as u64)
            } else {
                CelValue::from_uint(*rng.pick(&vals::uint_pool()))
            }
        }
        Ty::Dbl => {
            if tame || rng.chance(3, 4) {
                CelValue::from_float(rng.range(-8, 8) as f64 * 0.5)
            } else {
                CelValue::from_float(*rng.pick(&vals::double_pool()))
            }
        }
        Ty::Bool => CelValue::from_bool(rng.chance(1, 2)),
        Ty::Str => {
            if rng.chance(1, 2) {
                CelValue::from_string(rng.pick(&["", "a", "ab", "abc", "b", "é", "hello world", "A"]).to_string())
            } else {
                CelValue::from_string(vals::random_string(rng, 6))
            }
        }
        Ty::Bytes => {
            let n = rng.below(4);
            CelValue::from_bytes((0..n).map(|_| *rng.pick(&[0u8, 0x61, 0x62, 0xff, 0xc3])).collect())
        }
        Ty::Null => CelValue::from_null(),
        Ty::Ts => {
            // millisecond resolution (what serialisation keeps), years 1970..2100
            let secs = rng.range(0, 4_102_444_800);
            let ms = rng.below(1000) as u32;
            CelValue::from_timestamp(vals::ts(secs, ms * 1_000_000))
        }
        Ty::Dur => CelValue::from_duration(chrono::Duration::milliseconds(rng.range(-86_400_000, 86_400_000))),
        Ty::Type => rng.pick(&vals::type_pool()).clone(),
        Ty::List(t) => {
            let n = rng.below(4);
            CelValue::from_list((0..n).map(|_| value_of(rng, t, tame)).collect())
        }
        Ty::Map(t) => {
            let n = rng.below(4);
            let mut m = std::collections::HashMap::new();
            for _ in 0..n {
                m.insert(rng.pick(&MAP_KEYS).to_string(), value_of(rng, t, tame));
            }
            CelValue::from_map(m)
        }
    }
}

#[derive(Clone, Debug)]
pub struct VarDecl {
    pub name: String,
    pub ty: Ty,
}

#[derive(Clone)]
pub struct GenCfg {
    pub vars: Vec<VarDecl>,
    /// probability (percent) that a requested type is ignored (ill-typed node)
    pub ill_typed_pct: u32,
    pub allow_macros: bool,
    pub allow_match: bool,
    pub allow_fstr: bool,
    pub allow_calls: bool,
    pub allow_time: bool,
    /// names of other stored programs usable as identifiers, with their types
    pub progs: Vec<VarDecl>,
    /// unbound identifier names that may be sprinkled in
    pub unbound: Vec<String>,
    pub tame: bool,
    /// fresh loop variable counter / names pool
    pub loop_names: Vec<String>,
}

impl GenCfg {
    pub fn basic(vars: Vec<VarDecl>) -> GenCfg {
        GenCfg {
            vars,
            ill_typed_pct: 3,
            allow_macros: true,
            allow_match: true,
            allow_fstr: true,
            allow_calls: true,
            allow_time: true,
            progs: vec![],
            unbound: vec![],
            tame: true,
            loop_names: vec!["x".into(), "y".into(), "it".into(), "v".into()],
        }
    }
}

pub fn random_vars(rng: &mut Rng, n: usize) -> Vec<VarDecl> {
    const NAMES: [&str; 12] = ["a", "b", "c", "d", "p", "q", "foo", "bar_1", "Z", "size", "map", "list"];
    let mut out: Vec<VarDecl> = Vec::new();
    let mut tries = 0;
    while out.len() < n && tries < 50 {
        tries += 1;
        let name = rng.pick(&NAMES).to_string();
        if out.iter().any(|v| v.name == name) {
            continue;
        }
        out.push(VarDecl {
            name,
            ty: random_ty(rng, 1),
        });
    }
    out
}

pub struct Gen<'a> {
    pub rng: &'a mut Rng,
    pub cfg: GenCfg,
    /// loop variables in scope (name, type)
    scope: Vec<VarDecl>,
}

impl<'a> Gen<'a> {
    pub fn new(rng: &'a mut Rng, cfg: GenCfg) -> Gen<'a> {
        Gen {
            rng,
            cfg,
            scope: Vec::new(),
        }
    }

    fn vars_of(&self, ty: &Ty) -> Vec<String> {
        let mut v: Vec<String> = Vec::new();
        for d in self.scope.iter().rev() {
            if &d.ty == ty && !v.contains(&d.name) {
                v.push(d.name.clone());
            }
        }
        for d in self.cfg.vars.iter().chain(self.cfg.progs.iter()) {
            // a loop variable of another type shadows an outer variable of the same name
            if &d.ty == ty && !self.scope.iter().any(|s| s.name == d.name) && !v.contains(&d.name) {
                v.push(d.name.clone());
            }
        }
        v
    }

    pub fn leaf(&mut self, ty: &Ty) -> E {
        let vs = self.vars_of(ty);
        if !vs.is_empty() && self.rng.chance(3, 5) {
            return E::Var(self.rng.pick(&vs).clone());
        }
        if !self.cfg.unbound.is_empty() && self.rng.chance(1, 40) {
            return E::Var(self.rng.pick(&self.cfg.unbound).clone());
        }
        let tame = self.cfg.tame;
        E::Lit(value_of(self.rng, ty, tame))
    }

    pub fn expr(&mut self, ty: &Ty, depth: u32) -> E {
        if depth == 0 {
            return self.leaf(ty);
        }
        if self.rng.chance(self.cfg.ill_typed_pct, 100) {
            let t = random_ty(self.rng, 1);
            return self.expr(&t, depth - 1);
        }
        if self.rng.chance(1, 5) {
            return self.leaf(ty);
        }
        let d = depth - 1;
        // generic productions available for every type
        let g = self.rng.below(20);
        match g {
            0 | 1 => {
                let c = self.cond(d);
                let a = self.expr(ty, d);
                let b = self.expr(ty, d);
                return E::Tern(Box::new(c), Box::new(a), Box::new(b));
            }
            2 => {
                // index into a list literal / variable of that element type
                let lt = Ty::List(Box::new(ty.clone()));
                let l = self.expr(&lt, d);
                let i = if self.rng.chance(1, 3) {
                    self.expr(&Ty::Int, d)
                } else {
                    lit(self.rng.range(-2, 2))
                };
                return E::Index(Box::new(l), Box::new(i));
            }
            3 => {
                let mt = Ty::Map(Box::new(ty.clone()));
                let m = self.expr(&mt, d);
                let k = self.rng.pick(&MAP_KEYS).to_string();
                return if self.rng.chance(1, 2) && k.is_ascii() {
                    E::Field(Box::new(m), k)
                } else {
                    E::Index(Box::new(m), Box::new(lit(k.as_str())))
                };
            }
            4 if self.cfg.allow_match => {
                let s = {
                    let t = random_ty(self.rng, 0);
                    self.expr(&t, d)
                };
                let n = 1 + self.rng.below(3);
                let mut cases = Vec::new();
                for _ in 0..n {
                    let p = match self.rng.below(4) {
                        0 => Pat::Type(
                            self.rng
                                .pick(&["int", "uint", "float", "string", "bool", "bytes", "list", "object", "null", "timestamp", "duration"])
                                .to_string(),
                        ),
                        1 => Pat::Cmp(
                            self.rng.pick(&["", "==", "!=", ">", ">=", "<", "<="]).to_string(),
                            lit(self.rng.range(-2, 5)),
                        ),
                        2 => Pat::Cmp(String::new(), {
                            let t = random_ty(self.rng, 0);
                            self.leaf(&t)
                        }),
                        _ => Pat::Any,
                    };
                    cases.push((p, self.expr(ty, d)));
                }
                if self.rng.chance(2, 3) {
                    cases.push((Pat::Any, self.expr(ty, d)));
                }
                return E::Match(Box::new(s), cases);
            }
            5 if self.cfg.allow_macros => {
                // coalesce(.., x)
                let n = self.rng.below(3);
                let mut args = Vec::new();
                for _ in 0..n {
                    if self.rng.chance(1, 2) {
                        args.push(lit(CelValue::from_null()));
                    } else {
                        args.push(self.expr(ty, d));
                    }
                }
                args.push(self.expr(ty, d));
                return E::Call("coalesce".into(), args);
            }
            6 if self.cfg.allow_macros => {
                // reduce producing ty
                let et = random_ty(self.rng, 0);
                let l = self.expr(&Ty::List(Box::new(et.clone())), d);
                let acc = "acc".to_string();
                let x = self.rng.pick(&self.cfg.loop_names).clone();
                self.scope.push(VarDecl { name: acc.clone(), ty: ty.clone() });
                self.scope.push(VarDecl { name: x.clone(), ty: et });
                let step = self.expr(ty, d);
                self.scope.pop();
                self.scope.pop();
                let seed = self.expr(ty, d);
                let node = E::Method(Box::new(l), "reduce".into(), vec![E::Var(acc), E::Var(x), step, seed]);
                return if too_heavy(&node) { self.leaf(ty) } else { node };
            }
            7 => {
                let inner = self.expr(ty, d);
                return E::Paren(Box::new(inner));
            }
            _ => {}
        }
        match ty {
            Ty::Int => self.int_expr(d),
            Ty::UInt => self.uint_expr(d),
            Ty::Dbl => self.dbl_expr(d),
            Ty::Bool => self.cond(d),
            Ty::Str => self.str_expr(d),
            Ty::Bytes => {
                if self.rng.chance(1, 2) {
                    bin(BinOp::Add, self.expr(&Ty::Bytes, d), self.expr(&Ty::Bytes, d))
                } else if self.cfg.allow_calls {
                    call("bytes", vec![self.expr(&Ty::Str, d)])
                } else {
                    self.leaf(ty)
                }
            }
            Ty::Null => self.leaf(ty),
            Ty::Ts => {
                if !self.cfg.allow_time {
                    return self.leaf(ty);
                }
                match self.rng.below(3) {
                    0 => bin(BinOp::Add, self.expr(&Ty::Ts, d), self.expr(&Ty::Dur, d)),
                    1 => bin(BinOp::Sub, self.expr(&Ty::Ts, d), self.expr(&Ty::Dur, d)),
                    _ => call("timestamp", vec![lit(self.rng.range(0, 2_000_000_000))]),
                }
            }
            Ty::Dur => {
                if !self.cfg.allow_time {
                    return self.leaf(ty);
                }
                match self.rng.below(4) {
                    0 => bin(BinOp::Add, self.expr(&Ty::Dur, d), self.expr(&Ty::Dur, d)),
                    1 => bin(BinOp::Sub, self.expr(&Ty::Ts, d), self.expr(&Ty::Ts, d)),
                    2 => call("duration", vec![lit(*self.rng.pick(&["1h", "90m", "1s500ms", "2h30m"]))]),
                    _ => call("duration", vec![lit(self.rng.range(0, 100_000))]),
                }
            }
            Ty::Type => {
                if self.cfg.allow_calls {
                    let t = random_ty(self.rng, 0);
                    call("type", vec![self.expr(&t, d)])
                } else {
                    self.leaf(ty)
                }
            }
            Ty::List(t) => self.list_expr(t, d),
            Ty::Map(t) => {
                let n = self.rng.below(4);
                let mut ents = Vec::new();
                for _ in 0..n {
                    let k = if self.rng.chance(1, 8) {
                        self.expr(&Ty::Str, 0)
                    } else {
                        lit(*self.rng.pick(&MAP_KEYS))
                    };
                    ents.push((k, self.expr(t, d)));
                }
                E::Map(ents)
            }
        }
    }

    /// a condition: booleans mostly, sometimes any value (truthiness)
    pub fn cond(&mut self, d: u32) -> E {
        if d == 0 {
            return self.leaf(&Ty::Bool);
        }
        let d1 = d - 1;
        match self.rng.below(16) {
            0 | 1 => bin(BinOp::Or, self.cond(d1), self.cond(d1)),
            2 | 3 => bin(BinOp::And, self.cond(d1), self.cond(d1)),
            4 => {
                let n = 1 + self.rng.below(2);
                E::Un('!', n, Box::new(self.cond(d1)))
            }
            5 | 6 | 7 => {
                let t = self.rng.pick(&[Ty::Int, Ty::Int, Ty::Dbl, Ty::Str, Ty::UInt, Ty::Ts, Ty::Dur, Ty::Bytes, Ty::Bool]).clone();
                let op = *self.rng.pick(&[BinOp::Lt, BinOp::Le, BinOp::Gt, BinOp::Ge, BinOp::Eq, BinOp::Ne]);
                bin(op, self.expr(&t, d1), self.expr(&t, d1))
            }
            8 => {
                let t = random_ty(self.rng, 1);
                let op = *self.rng.pick(&[BinOp::Eq, BinOp::Ne]);
                bin(op, self.expr(&t, d1), self.expr(&t, d1))
            }
            9 => {
                let t = self.rng.pick(&[Ty::Int, Ty::Str]).clone();
                bin(BinOp::In, self.expr(&t, d1), self.expr(&Ty::List(Box::new(t.clone())), d1))
            }
            10 => {
                if self.rng.chance(1, 2) {
                    bin(BinOp::In, self.expr(&Ty::Str, d1), self.expr(&Ty::Str, d1))
                } else {
                    let mt = Ty::Map(Box::new(Ty::Int));
                    bin(BinOp::In, lit(*self.rng.pick(&MAP_KEYS)), self.expr(&mt, d1))
                }
            }
            11 if self.cfg.allow_macros => {
                let et = self.rng.pick(&[Ty::Int, Ty::Int, Ty::Str, Ty::Dbl, Ty::Bool]).clone();
                let l = self.expr(&Ty::List(Box::new(et.clone())), d1);
                let x = self.rng.pick(&self.cfg.loop_names).clone();
                self.scope.push(VarDecl { name: x.clone(), ty: et });
                let body = self.cond(d1);
                self.scope.pop();
                let m = *self.rng.pick(&["all", "exists", "exists_one"]);
                let node = E::Method(Box::new(l), m.into(), vec![E::Var(x), body]);
                if too_heavy(&node) { self.leaf(&Ty::Bool) } else { node }
            }
            12 if self.cfg.allow_macros => {
                // has(path)
                let mt = Ty::Map(Box::new(Ty::Int));
                let vs = self.vars_of(&mt);
                let root = if !vs.is_empty() && self.rng.chance(2, 3) {
                    E::Var(self.rng.pick(&vs).clone())
                } else if !self.cfg.unbound.is_empty() {
                    E::Var(self.rng.pick(&self.cfg.unbound).clone())
                } else {
                    self.expr(&mt, 0)
                };
                let k = self.rng.pick(&["a", "b", "k", "zz"]).to_string();
                call("has", vec![E::Field(Box::new(root), k)])
            }
            13 if self.cfg.allow_calls => {
                let f = *self.rng.pick(&["contains", "startsWith", "endsWith", "containsI", "matches"]);
                let a = if f == "matches" {
                    lit(*self.rng.pick(&["a+", "^a", "[a-c]*$", "b|c", "."]))
                } else {
                    self.expr(&Ty::Str, d1)
                };
                method(self.expr(&Ty::Str, d1), f, vec![a])
            }
            14 => {
                // truthiness of an arbitrary value
                let t = random_ty(self.rng, 1);
                self.expr(&t, d1)
            }
            _ => self.leaf(&Ty::Bool),
        }
    }

    fn int_expr(&mut self, d: u32) -> E {
        match self.rng.below(14) {
            0..=4 => {
                let op = *self.rng.pick(&[BinOp::Add, BinOp::Sub, BinOp::Mul, BinOp::Div, BinOp::Mod, BinOp::Add, BinOp::Sub]);
                bin(op, self.expr(&Ty::Int, d), self.expr(&Ty::Int, d))
            }
            5 => {
                let n = 1 + self.rng.below(2);
                E::Un('-', n, Box::new(self.expr(&Ty::Int, d)))
            }
            6 if self.cfg.allow_calls => {
                let t = self.rng.pick(&[Ty::Dbl, Ty::UInt, Ty::Bool, Ty::Int]).clone();
                call("int", vec![self.expr(&t, d)])
            }
            7 if self.cfg.allow_calls => {
                let f = *self.rng.pick(&["abs", "min", "max"]);
                if f == "abs" {
                    call(f, vec![self.expr(&Ty::Int, d)])
                } else {
                    call(f, vec![self.expr(&Ty::Int, d), self.expr(&Ty::Int, d)])
                }
            }
            8 if self.cfg.allow_calls && self.cfg.allow_time => {
                let f = *self.rng.pick(&["getFullYear", "getMonth", "getDate", "getHours", "getMinutes", "getSeconds", "getDayOfYear"]);
                method(self.expr(&Ty::Ts, d), f, vec![])
            }
            9 if self.cfg.allow_calls => {
                let f = *self.rng.pick(&["ceil", "floor", "round"]);
                call(f, vec![self.expr(&Ty::Dbl, d)])
            }
            10 => {
                // bool widening in arithmetic
                bin(BinOp::Add, self.expr(&Ty::Int, d), self.cond(d))
            }
            11 => {
                // mixed int/uint arithmetic gives int
                bin(BinOp::Add, self.expr(&Ty::Int, d), self.expr(&Ty::UInt, d))
            }
            _ => self.leaf(&Ty::Int),
        }
    }

    fn uint_expr(&mut self, d: u32) -> E {
        match self.rng.below(8) {
            0..=2 => {
                let op = *self.rng.pick(&[BinOp::Add, BinOp::Mul, BinOp::Div, BinOp::Mod, BinOp::Sub]);
                bin(op, self.expr(&Ty::UInt, d), self.expr(&Ty::UInt, d))
            }
            3 if self.cfg.allow_calls => {
                let t = self.rng.pick(&[Ty::Str, Ty::Bytes, Ty::List(Box::new(Ty::Int))]).clone();
                if self.rng.chance(1, 2) {
                    call("size", vec![self.expr(&t, d)])
                } else {
                    method(self.expr(&t, d), "size", vec![])
                }
            }
            4 if self.cfg.allow_calls => call("uint", vec![self.expr(&Ty::Int, d)]),
            _ => self.leaf(&Ty::UInt),
        }
    }

    fn dbl_expr(&mut self, d: u32) -> E {
        match self.rng.below(9) {
            0..=3 => {
                let op = *self.rng.pick(&[BinOp::Add, BinOp::Sub, BinOp::Mul, BinOp::Div]);
                bin(op, self.expr(&Ty::Dbl, d), self.expr(&Ty::Dbl, d))
            }
            4 => bin(BinOp::Mul, self.expr(&Ty::Dbl, d), self.expr(&Ty::Int, d)),
            5 => E::Un('-', 1, Box::new(self.expr(&Ty::Dbl, d))),
            6 if self.cfg.allow_calls => {
                let t = self.rng.pick(&[Ty::Int, Ty::UInt, Ty::Dbl]).clone();
                call("double", vec![self.expr(&t, d)])
            }
            7 if self.cfg.allow_calls => call("sqrt", vec![self.expr(&Ty::Dbl, d)]),
            _ => self.leaf(&Ty::Dbl),
        }
    }

    fn str_expr(&mut self, d: u32) -> E {
        match self.rng.below(12) {
            0..=2 => bin(BinOp::Add, self.expr(&Ty::Str, d), self.expr(&Ty::Str, d)),
            3 if self.cfg.allow_calls => {
                let t = self.rng.pick(&[Ty::Int, Ty::UInt, Ty::Dbl, Ty::Str, Ty::Ts]).clone();
                call("string", vec![self.expr(&t, d)])
            }
            4 if self.cfg.allow_calls => {
                let f = *self.rng.pick(&["toLower", "toUpper", "trim", "trimStart", "trimEnd"]);
                method(self.expr(&Ty::Str, d), f, vec![])
            }
            5 if self.cfg.allow_calls => {
                let f = *self.rng.pick(&["replace", "matchReplace"]);
                method(self.expr(&Ty::Str, d), f, vec![lit(*self.rng.pick(&["a", "b", "ab"])), self.expr(&Ty::Str, 0)])
            }
            6 if self.cfg.allow_fstr => {
                let n = 1 + self.rng.below(3);
                let mut segs = Vec::new();
                for _ in 0..n {
                    if self.rng.chance(1, 2) {
                        segs.push(Seg::Lit(self.rng.pick(&["x", " ", "{", "}", "a-b", "é", "it\"s"]).to_string()));
                    } else {
                        let t = self.rng.pick(&[Ty::Int, Ty::Str, Ty::Dbl, Ty::UInt]).clone();
                        // embedded expressions: no quotes-in-quotes trouble, keep them simple
                        let e = self.fstr_safe_expr(&t, d.min(1));
                        segs.push(Seg::Expr(e));
                    }
                }
                if !segs.iter().any(|s| matches!(s, Seg::Expr(_))) {
                    segs.push(Seg::Expr(self.fstr_safe_expr(&Ty::Int, 0)));
                }
                E::FStr(segs)
            }
            7 if self.cfg.allow_calls => {
                // index into split result
                let s = method(self.expr(&Ty::Str, d), "split", vec![lit(*self.rng.pick(&[",", "a", " "]))]);
                E::Index(Box::new(s), Box::new(lit(0)))
            }
            _ => self.leaf(&Ty::Str),
        }
    }

    /// expressions that survive being embedded in an f-string: no quotes of the outer kind, no
    /// nested f-strings, no braces from map literals
    fn fstr_safe_expr(&mut self, ty: &Ty, d: u32) -> E {
        let saved = (self.cfg.allow_fstr, self.cfg.allow_match, self.cfg.allow_macros);
        self.cfg.allow_fstr = false;
        self.cfg.allow_match = false;
        let mut e = self.expr(ty, d);
        self.cfg.allow_fstr = saved.0;
        self.cfg.allow_match = saved.1;
        self.cfg.allow_macros = saved.2;
        // reject anything whose rendering contains characters the f-string scanner treats specially
        let text = render(&e, Ws::Tight, Parens::Minimal, None).text;
        if text.contains('{') || text.contains('}') || text.contains('"') || text.contains('\\') || text.contains('\n') {
            e = self.leaf(&Ty::Int);
            if let E::Lit(CelValue::Int(i)) = &e {
                if *i < 0 {
                    e = lit(1);
                }
            }
        }
        e
    }

    fn list_expr(&mut self, t: &Ty, d: u32) -> E {
        match self.rng.below(12) {
            0..=3 => {
                let n = self.rng.below(5);
                E::List((0..n).map(|_| self.expr(t, d)).collect())
            }
            4 => bin(BinOp::Add, self.expr(&Ty::List(Box::new(t.clone())), d), self.expr(&Ty::List(Box::new(t.clone())), d)),
            5 | 6 if self.cfg.allow_macros => {
                // map from some element type to t
                let et = random_ty(self.rng, 0);
                let l = self.expr(&Ty::List(Box::new(et.clone())), d);
                let x = self.rng.pick(&self.cfg.loop_names).clone();
                self.scope.push(VarDecl { name: x.clone(), ty: et });
                let body = self.expr(t, d);
                let pred = if self.rng.chance(1, 3) { Some(self.cond(d)) } else { None };
                self.scope.pop();
                let mut args = vec![E::Var(x)];
                if let Some(p) = pred {
                    args.push(p);
                }
                args.push(body);
                let node = E::Method(Box::new(l), "map".into(), args);
                if too_heavy(&node) { self.leaf(&Ty::List(Box::new(t.clone()))) } else { node }
            }
            7 if self.cfg.allow_macros => {
                let l = self.expr(&Ty::List(Box::new(t.clone())), d);
                let x = self.rng.pick(&self.cfg.loop_names).clone();
                self.scope.push(VarDecl { name: x.clone(), ty: t.clone() });
                let body = self.cond(d);
                self.scope.pop();
                let node = E::Method(Box::new(l), "filter".into(), vec![E::Var(x), body]);
                if too_heavy(&node) { self.leaf(&Ty::List(Box::new(t.clone()))) } else { node }
            }
            8 if self.cfg.allow_calls && matches!(t, Ty::Int | Ty::Str | Ty::Dbl | Ty::UInt) => {
                method(self.expr(&Ty::List(Box::new(t.clone())), d), "sort", vec![])
            }
            9 if self.cfg.allow_calls && *t == Ty::Str => {
                let f = *self.rng.pick(&["split", "rsplit"]);
                method(self.expr(&Ty::Str, d), f, vec![lit(*self.rng.pick(&[",", " ", "a", "ab"]))])
            }
            10 if self.cfg.allow_macros && *t == Ty::Str => {
                // keys of a map, in the fixed key order
                let mt = Ty::Map(Box::new(Ty::Int));
                let m = self.expr(&mt, d);
                let x = self.rng.pick(&self.cfg.loop_names).clone();
                E::Method(Box::new(m), "map".into(), vec![E::Var(x.clone()), E::Var(x)])
            }
            _ => self.leaf(&Ty::List(Box::new(t.clone()))),
        }
    }
}

/// Random bindings for the declared variables (values of the declared types).
pub fn random_binds(rng: &mut Rng, vars: &[VarDecl], tame: bool) -> Vec<(String, CelValue)> {
    vars.iter()
        .map(|v| (v.name.clone(), value_of(rng, &v.ty, tame)))
        .collect()
}
