//! Structural invariant walk over emitted bytecode (the "walk the live structure at a quiescent
//! point" monitor of C10): forward, in-range jumps; abstract stack height propagated through both
//! successors of every instruction; no underflow; equal heights where paths meet; exactly one
//! value at the end of every path. Because jumps are forward-only one pass covers all paths of a
//! block. Nested blocks (`Push(ByteCode(..))`) are walked recursively.

use rscel::{ByteCode, CelValue};

#[derive(Default, Debug)]
pub struct WalkStats {
    pub blocks: u64,
    pub instructions: u64,
    pub jumps: u64,
    pub cond_jumps: u64,
    pub nested_blocks: u64,
    pub max_height: i64,
    pub opcodes_seen: u32,
}

pub fn op_index(op: &ByteCode) -> u8 {
    use ByteCode::*;
    match op {
        Push(_) => 0,
        Pop => 1,
        Test => 2,
        Dup => 3,
        Or => 4,
        And => 5,
        Not => 6,
        Neg => 7,
        Add => 8,
        Sub => 9,
        Mul => 10,
        Div => 11,
        Mod => 12,
        Lt => 13,
        Le => 14,
        Eq => 15,
        Ne => 16,
        Ge => 17,
        Gt => 18,
        In => 19,
        Jmp(_) => 20,
        JmpCond { .. } => 21,
        MkList(_) => 23,
        MkDict(_) => 24,
        Index => 25,
        Access => 26,
        Call(_) => 27,
        FmtString(_) => 28,
    }
}

/// (values required on the stack, net effect)
fn need_effect(op: &ByteCode) -> (i64, i64) {
    use ByteCode::*;
    match op {
        Push(_) => (0, 1),
        Pop => (1, -1),
        Test => (1, 0),
        Dup => (1, 1),
        Or | And | Add | Sub | Mul | Div | Mod | Lt | Le | Eq | Ne | Ge | Gt | In => (2, -1),
        Not | Neg => (1, 0),
        Jmp(_) => (0, 0),
        JmpCond { .. } => (1, -1),
        MkList(n) => (*n as i64, 1 - *n as i64),
        MkDict(n) => (2 * *n as i64, 1 - 2 * *n as i64),
        Index | Access => (2, -1),
        Call(n) => (*n as i64 + 1, -(*n as i64)),
        FmtString(n) => (*n as i64, 1 - *n as i64),
    }
}

/// Walk one block (and its nested blocks). Returns the list of problems found.
pub fn walk_block(code: &[ByteCode], path: &str, stats: &mut WalkStats, problems: &mut Vec<String>) {
    stats.blocks += 1;
    let len = code.len();
    let mut height: Vec<Option<i64>> = vec![None; len + 1];
    height[0] = Some(0);
    let mut flow = |height: &mut Vec<Option<i64>>, to: usize, h: i64, from: usize, problems: &mut Vec<String>| match height[to] {
        None => height[to] = Some(h),
        Some(old) => {
            if old != h {
                problems.push(format!("{}: paths meeting at {} disagree on the stack height ({} vs {} coming from {})", path, to, old, h, from));
            }
        }
    };
    for i in 0..len {
        stats.instructions += 1;
        stats.opcodes_seen |= 1 << op_index(&code[i]);
        let h = match height[i] {
            Some(h) => h,
            None => {
                // unreachable instruction: not executed on any path
                continue;
            }
        };
        let (need, eff) = need_effect(&code[i]);
        if h < need {
            problems.push(format!("{}: instruction {} ({:?}) needs {} value(s) but only {} are on the stack", path, i, code[i], need, h));
            continue;
        }
        let nh = h + eff;
        stats.max_height = stats.max_height.max(nh);
        if let ByteCode::Push(CelValue::ByteCode(inner)) = &code[i] {
            stats.nested_blocks += 1;
            walk_block(inner.as_slice(), &format!("{}/{}", path, i), stats, problems);
        }
        match &code[i] {
            ByteCode::Jmp(d) => {
                stats.jumps += 1;
                let t = i as i64 + 1 + *d as i64;
                if *d < 0 || t > len as i64 {
                    problems.push(format!("{}: jump at {} (distance {}) lands at {} outside [{}, {}]", path, i, d, t, i + 1, len));
                } else {
                    flow(&mut height, t as usize, nh, i, problems);
                }
            }
            ByteCode::JmpCond { dist, .. } => {
                stats.cond_jumps += 1;
                let t = i as i64 + 1 + *dist as i64;
                if *dist < 0 || t > len as i64 {
                    problems.push(format!("{}: conditional jump at {} (distance {}) lands at {} outside [{}, {}]", path, i, dist, t, i + 1, len));
                } else {
                    flow(&mut height, t as usize, nh, i, problems);
                }
                flow(&mut height, i + 1, nh, i, problems);
            }
            _ => flow(&mut height, i + 1, nh, i, problems),
        }
    }
    match height[len] {
        Some(1) => {}
        Some(h) => problems.push(format!("{}: the block ends with {} value(s) on the stack instead of exactly one", path, h)),
        None => problems.push(format!("{}: no path reaches the end of the block", path)),
    }
}

pub fn walk_program(p: &rscel::Program, stats: &mut WalkStats) -> Vec<String> {
    let mut problems = Vec::new();
    walk_block(p.bytecode().as_slice(), "main", stats, &mut problems);
    problems
}
