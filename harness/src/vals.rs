//! Value pools (boundary-heavy) and the literal speller: CelValue -> CEL source text that
//! evaluates (at compile time) to exactly that value.

use std::collections::HashMap;

use chrono::{DateTime, Duration, TimeZone, Utc};
use rscel::CelValue;

use crate::rng::Rng;

pub fn int_pool() -> Vec<i64> {
    let mut v = vec![
        i64::MIN,
        i64::MIN + 1,
        -(1i64 << 53) - 1,
        -(1i64 << 53),
        -(1i64 << 32) - 1,
        -(1i64 << 32),
        -(1i64 << 31) - 1,
        -(1i64 << 31),
        -3,
        -2,
        -1,
        0,
        1,
        2,
        3,
        7,
        10,
        63,
        64,
        (1i64 << 31) - 1,
        1i64 << 31,
        (1i64 << 32) - 1,
        1i64 << 32,
        (1i64 << 32) + 1,
        1i64 << 53,
        (1i64 << 53) + 1,
        3037000499, // floor(sqrt(i64::MAX))
        3037000500,
        i64::MAX / 2,
        i64::MAX / 2 + 1,
        i64::MAX - 1,
        i64::MAX,
    ];
    // the same 64-bit ranges counted in other units: time values are i64 milli- / micro- / nanoseconds inside, so
    // "seconds" arguments meet their limits at i64::MAX / 10^3, 10^6, 10^9, and sub-second parts at 10^9 - 1
    for unit in [1_000i64, 1_000_000, 1_000_000_000] {
        for base in [i64::MAX / unit, i64::MIN / unit] {
            for d in [-1i64, 0, 1] {
                v.push(base + d);
            }
        }
    }
    v.extend([
        999_999_999, 1_000_000_000, 807_000_000, 807_000_001, -807_000_001, -999_999_999, 86_399, 86_400,
        253_402_300_799, 253_402_300_800, -62_135_596_800, -62_135_596_801, 8_210_266_876_799, 8_210_266_876_800,
    ]);
    v.sort();
    v.dedup();
    v
}

pub fn uint_pool() -> Vec<u64> {
    vec![
        0,
        1,
        2,
        3,
        10,
        63,
        64,
        1u64 << 31,
        (1u64 << 32) - 1,
        1u64 << 32,
        (1u64 << 32) + 1,
        1u64 << 53,
        (1u64 << 53) + 1,
        4294967296 - 1,
        (1u64 << 63) - 1,
        1u64 << 63,
        (1u64 << 63) + 1,
        u64::MAX / 2,
        u64::MAX - 1,
        u64::MAX,
    ]
}

pub fn double_pool() -> Vec<f64> {
    let mut v = vec![
        0.0,
        -0.0,
        f64::from_bits(1),
        -f64::from_bits(1),
        f64::MIN_POSITIVE,
        -f64::MIN_POSITIVE,
        0.5,
        -0.5,
        1.0,
        -1.0,
        1.5,
        -1.5,
        2.0,
        2.5,
        -2.5,
        3.0,
        0.1,
        1e-7,
        1e21,
        9007199254740992.0,
        9007199254740994.0,
        -9007199254740992.0,
        9223372036854775808.0,
        -9223372036854775808.0,
        9223372036854774784.0, // largest double below 2^63
        18446744073709551616.0,
        18446744073709549568.0, // largest double below 2^64
        4294967296.0,
        2147483648.0,
        f64::MAX,
        f64::MIN,
        f64::INFINITY,
        f64::NEG_INFINITY,
        f64::NAN,
    ];
    v.push(f64::EPSILON);
    v
}

pub fn string_pool() -> Vec<String> {
    let mut v: Vec<String> = vec![
        "",
        "a",
        "abc",
        "ABC",
        "aaa",
        "hello world",
        " ",
        "  padded\t",
        "0",
        "1",
        "-1",
        "true",
        "false",
        "1.5",
        "é",
        "héllo",
        "日本語",
        "😀",
        "a😀b",
        "İ",
        "ß",
        "ς",
        "e\u{301}",
        "it's",
        "say \"hi\"",
        "back\\slash",
        "{brace}",
        "line1\nline2",
        "\u{0}",
        "\u{7f}",
        "2021-01-01T00:00:00Z",
        "1h",
        "UTC",
        "null",
        "x",
    ]
    .into_iter()
    .map(|s| s.to_string())
    .collect();
    v.push("k".repeat(1024));
    v
}

pub fn bytes_pool() -> Vec<Vec<u8>> {
    vec![
        vec![],
        vec![0],
        vec![0xff],
        vec![0x61],
        b"abc".to_vec(),
        vec![0xc3, 0xa9],
        vec![0xc3],       // truncated UTF-8
        vec![0xff, 0xfe], // invalid UTF-8
        vec![0xf0, 0x9f, 0x98, 0x80],
        vec![0, 1, 2, 3, 254, 255],
        b"a'b\"c\\".to_vec(),
    ]
}

pub fn ts(secs: i64, nanos: u32) -> DateTime<Utc> {
    Utc.timestamp_opt(secs, nanos).single().expect("valid ts")
}

pub fn timestamp_pool() -> Vec<DateTime<Utc>> {
    let mut v = vec![
        ts(0, 0),
        ts(0, 1),
        ts(-1, 999_999_999),
        ts(1, 0),
        ts(-1, 0),
        ts(951782400, 0),    // 2000-02-29
        ts(1709164800, 0),   // 2024-02-29
        ts(1704067199, 0),   // 2023-12-31T23:59:59
        ts(1704067200, 0),   // 2024-01-01
        ts(1710054000, 0),   // 2024-03-10 07:00Z (US DST start 02:00 EST)
        ts(1730624400, 0),   // 2024-11-03 09:00Z
        ts(1700000000, 123_456_789),
        ts(1700000000, 123_000_000),
        ts(253402300799, 0), // 9999-12-31T23:59:59
        ts(-62135596800, 0), // 0001-01-01
        ts(4102444800, 0),   // 2100-01-01
    ];
    v.push(DateTime::<Utc>::MIN_UTC);
    v.push(DateTime::<Utc>::MAX_UTC);
    v
}

pub fn duration_pool() -> Vec<Duration> {
    vec![
        Duration::zero(),
        Duration::nanoseconds(1),
        Duration::nanoseconds(-1),
        Duration::milliseconds(1),
        Duration::milliseconds(-1),
        Duration::milliseconds(1500),
        Duration::milliseconds(-1500),
        Duration::seconds(1),
        Duration::seconds(-1),
        Duration::seconds(59),
        Duration::seconds(60),
        Duration::seconds(3599),
        Duration::seconds(3600),
        Duration::seconds(-3600),
        Duration::seconds(86400),
        Duration::seconds(86400 * 365),
        Duration::seconds(9_223_372_036),
        Duration::MAX,
        Duration::MIN,
        Duration::MAX - Duration::nanoseconds(1),
        Duration::MIN + Duration::nanoseconds(1),
    ]
}

pub fn type_pool() -> Vec<CelValue> {
    [
        "int",
        "uint",
        "float",
        "bool",
        "string",
        "bytes",
        "list",
        "map",
        "null",
        "type",
        "timestamp",
        "duration",
        "dyn",
    ]
    .iter()
    .map(|s| CelValue::from_type(s))
    .collect()
}

pub fn mk_map(entries: &[(&str, CelValue)]) -> CelValue {
    let mut m = HashMap::new();
    for (k, v) in entries {
        m.insert(k.to_string(), v.clone());
    }
    CelValue::from_map(m)
}

pub fn list_pool() -> Vec<CelValue> {
    vec![
        CelValue::from_list(vec![]),
        CelValue::from_list(vec![1.into()]),
        CelValue::from_list(vec![1.into(), 2.into(), 3.into()]),
        CelValue::from_list(vec![3.into(), 1.into(), 2.into(), 1.into()]),
        CelValue::from_list(vec![0.into()]),
        CelValue::from_list(vec![CelValue::from_null()]),
        CelValue::from_list(vec![1.into(), 1u64.into(), 1.0.into()]),
        CelValue::from_list(vec!["a".into(), "b".into()]),
        CelValue::from_list(vec![
            CelValue::from_list(vec![1.into()]),
            CelValue::from_list(vec![]),
        ]),
        CelValue::from_list(vec![1.into(), "a".into(), CelValue::from_null(), true.into()]),
        CelValue::from_list(vec![mk_map(&[("a", 1.into())])]),
        CelValue::from_list((0..33).map(|i| CelValue::from_int(i)).collect()),
        CelValue::from_list(vec![f64::NAN.into(), 1.0.into()]),
    ]
}

pub fn map_pool() -> Vec<CelValue> {
    vec![
        mk_map(&[]),
        mk_map(&[("a", 1.into())]),
        mk_map(&[("a", 1.into()), ("b", 2.into())]),
        mk_map(&[("a", CelValue::from_null())]),
        mk_map(&[("", 0.into())]),
        mk_map(&[("é", "é".into())]),
        mk_map(&[("size", 5.into()), ("map", 6.into())]),
        mk_map(&[("a", mk_map(&[("b", mk_map(&[("c", 1.into())]))]))]),
        mk_map(&[("l", CelValue::from_list(vec![1.into(), 2.into()]))]),
    ]
}

/// The broad pool: every type with its boundary values.
pub fn full_pool() -> Vec<CelValue> {
    let mut v: Vec<CelValue> = Vec::new();
    v.extend(int_pool().into_iter().map(CelValue::from_int));
    v.extend(uint_pool().into_iter().map(CelValue::from_uint));
    v.extend(double_pool().into_iter().map(CelValue::from_float));
    v.push(true.into());
    v.push(false.into());
    v.push(CelValue::from_null());
    v.extend(string_pool().into_iter().map(CelValue::from_string));
    v.extend(bytes_pool().into_iter().map(CelValue::from_bytes));
    v.extend(list_pool());
    v.extend(map_pool());
    v.extend(timestamp_pool().into_iter().map(CelValue::from_timestamp));
    v.extend(duration_pool().into_iter().map(CelValue::from_duration));
    v.extend(type_pool());
    v
}

/// A smaller pool (a handful per type) for arity-2 sweeps.
pub fn small_pool() -> Vec<CelValue> {
    let mut v: Vec<CelValue> = Vec::new();
    for i in [i64::MIN, -1, 0, 1, 2, 64, 4294967297, i64::MAX] {
        v.push(i.into());
    }
    for u in [0u64, 1, 2, 64, 4294967297, 1u64 << 63, u64::MAX] {
        v.push(u.into());
    }
    for f in [
        0.0,
        -0.0,
        0.5,
        -1.5,
        2.0,
        1e19,
        -1e19,
        1e300,
        f64::INFINITY,
        f64::NEG_INFINITY,
        f64::NAN,
    ] {
        v.push(f.into());
    }
    v.push(true.into());
    v.push(false.into());
    v.push(CelValue::from_null());
    for s in ["", "a", "abc", "é", "😀", "a b", "1", "(", "UTC", "1h"] {
        v.push(s.into());
    }
    for b in [vec![], vec![0x61], vec![0xff, 0xfe]] {
        v.push(CelValue::from_bytes(b));
    }
    v.push(CelValue::from_list(vec![]));
    v.push(CelValue::from_list(vec![1.into(), 2.into()]));
    v.push(CelValue::from_list(vec!["a".into(), 1.into()]));
    v.push(mk_map(&[]));
    v.push(mk_map(&[("a", 1.into())]));
    v.push(CelValue::from_timestamp(ts(0, 0)));
    v.push(CelValue::from_timestamp(DateTime::<Utc>::MAX_UTC));
    v.push(CelValue::from_timestamp(DateTime::<Utc>::MIN_UTC));
    v.push(CelValue::from_duration(Duration::zero()));
    v.push(CelValue::from_duration(Duration::MAX));
    v.push(CelValue::from_duration(Duration::MIN));
    v.push(CelValue::from_type("int"));
    v
}

// ------------------------------------------------------------------------------------------
// literal speller

pub fn spell_string(s: &str) -> String {
    let mut o = String::from("'");
    for c in s.chars() {
        match c {
            '\\' => o.push_str("\\\\"),
            '\'' => o.push_str("\\'"),
            '\n' => o.push_str("\\n"),
            '\r' => o.push_str("\\r"),
            '\t' => o.push_str("\\t"),
            c if (c as u32) < 0x20 || c as u32 == 0x7f => {
                o.push_str(&format!("\\x{:02x}", c as u32));
            }
            c => o.push(c),
        }
    }
    o.push('\'');
    o
}

pub fn spell_bytes(b: &[u8]) -> String {
    let mut o = String::from("b'");
    for x in b {
        o.push_str(&format!("\\x{:02x}", x));
    }
    o.push('\'');
    o
}

pub fn spell_f64(f: f64) -> String {
    if f.is_nan() {
        return "(0.0/0.0)".to_string();
    }
    if f.is_infinite() {
        return if f > 0.0 {
            "(1.0/0.0)".to_string()
        } else {
            "(-1.0/0.0)".to_string()
        };
    }
    let mut s = format!("{:?}", f.abs());
    if !s.contains('.') && !s.contains('e') {
        s.push_str(".0");
    }
    if f.is_sign_negative() {
        format!("(-{})", s)
    } else {
        s
    }
}

/// Spell a value as CEL source, if it has a spelling. The text is parenthesised where needed so
/// it can stand in any operand position.
pub fn spell(v: &CelValue) -> Option<String> {
    Some(match v {
        CelValue::Int(i) => {
            if *i == i64::MIN {
                "(-9223372036854775807 - 1)".to_string()
            } else if *i < 0 {
                format!("({})", i)
            } else {
                format!("{}", i)
            }
        }
        CelValue::UInt(u) => format!("{}u", u),
        CelValue::Float(f) => spell_f64(*f),
        CelValue::Bool(b) => format!("{}", b),
        CelValue::Null => "null".to_string(),
        CelValue::String(s) => spell_string(s),
        CelValue::Bytes(b) => spell_bytes(b.as_slice()),
        CelValue::List(l) => {
            let mut parts = Vec::new();
            for e in l {
                parts.push(spell(e)?);
            }
            format!("[{}]", parts.join(", "))
        }
        CelValue::Map(m) => {
            let mut keys: Vec<&String> = m.keys().collect();
            keys.sort();
            let mut parts = Vec::new();
            for k in keys {
                parts.push(format!("{}: {}", spell_string(k), spell(&m[k])?));
            }
            format!("{{{}}}", parts.join(", "))
        }
        CelValue::TimeStamp(t) => {
            use chrono::Datelike;
            if t.year() < 1 || t.year() > 9999 {
                return None;
            }
            format!(
                "timestamp('{}')",
                t.to_rfc3339_opts(chrono::SecondsFormat::Nanos, true)
            )
        }
        CelValue::Duration(d) => {
            let mut secs = d.num_seconds();
            let mut nanos = d.subsec_nanos() as i64;
            if nanos < 0 {
                secs -= 1;
                nanos += 1_000_000_000;
            }
            if secs < 0 {
                format!("duration(({}), {})", secs, nanos)
            } else {
                format!("duration({}, {})", secs, nanos)
            }
        }
        CelValue::Type(t) => match t.as_str() {
            "int" | "uint" | "bool" | "string" | "bytes" | "type" | "timestamp" | "duration"
            | "dyn" => t.clone(),
            "float" => "double".to_string(),
            "null" => "null_type".to_string(),
            "list" => "type([])".to_string(),
            "map" => "type({})".to_string(),
            _ => return None,
        },
        _ => return None,
    })
}

pub fn random_string(rng: &mut Rng, maxlen: usize) -> String {
    const ALPHA: &[&str] = &[
        "a", "b", "c", "A", "B", "x", "0", "1", "9", " ", "\t", "é", "İ", "ß", "ς", "Σ", "😀",
        "e\u{301}", "'", "\"", "\\", "{", "}", "-", ".", ",", "\n", "日",
    ];
    let n = rng.below(maxlen + 1);
    let mut s = String::new();
    for _ in 0..n {
        s.push_str(*rng.pick(ALPHA));
    }
    s
}

/// Random value of a random type, size-bounded.
pub fn random_value(rng: &mut Rng, depth: u32) -> CelValue {
    let k = rng.below(if depth == 0 { 9 } else { 12 });
    match k {
        0 => {
            if rng.chance(1, 2) {
                CelValue::from_int(*rng.pick(&int_pool()))
            } else {
                CelValue::from_int(rng.next() as i64)
            }
        }
        1 => {
            if rng.chance(1, 2) {
                CelValue::from_uint(*rng.pick(&uint_pool()))
            } else {
                CelValue::from_uint(rng.next())
            }
        }
        2 => {
            if rng.chance(1, 2) {
                CelValue::from_float(*rng.pick(&double_pool()))
            } else {
                CelValue::from_float(rng.f64_bits())
            }
        }
        3 => CelValue::from_bool(rng.chance(1, 2)),
        4 => CelValue::from_null(),
        5 => CelValue::from_string(random_string(rng, 8)),
        6 => {
            let n = rng.below(6);
            CelValue::from_bytes((0..n).map(|_| rng.next() as u8).collect())
        }
        7 => CelValue::from_timestamp(*rng.pick(&timestamp_pool())),
        8 => CelValue::from_duration(*rng.pick(&duration_pool())),
        9 | 10 => {
            let n = rng.below(4);
            CelValue::from_list((0..n).map(|_| random_value(rng, depth - 1)).collect())
        }
        _ => {
            let n = rng.below(4);
            let mut m = HashMap::new();
            for _ in 0..n {
                let k = ["a", "b", "c", "size", "é", ""][rng.below(6)].to_string();
                m.insert(k, random_value(rng, depth - 1));
            }
            CelValue::from_map(m)
        }
    }
}
