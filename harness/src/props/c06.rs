//! C06 - collections: literals, indexing (incl. negative), membership, concatenation, size.
//! Oracle: lists as vectors, maps as last-wins insertion maps (model in the harness).

use rscel::{CelError, CelValue};
use serde_json::json;

use crate::mon::{self, canon, Binds, Ctx, Out, Rep};
use crate::rng::Rng;
use crate::vals;

fn elem(rng: &mut Rng, depth: u32) -> CelValue {
    match rng.below(if depth > 0 { 12 } else { 9 }) {
        0 => CelValue::from_int(rng.range(-3, 3)),
        1 => CelValue::from_uint(rng.below(4) as u64),
        2 => CelValue::from_float(rng.range(-2, 2) as f64 + 0.5),
        3 => CelValue::from_bool(rng.chance(1, 2)),
        4 => CelValue::from_null(),
        5 => CelValue::from_string(rng.pick(&["", "a", "b", "é", "ab"]).to_string()),
        6 => CelValue::from_bytes(vec![rng.below(3) as u8]),
        7 => CelValue::from_timestamp(vals::ts(rng.range(0, 3), 0)),
        8 => CelValue::from_duration(chrono::Duration::seconds(rng.range(-1, 2))),
        9 | 10 => {
            let n = rng.below(3);
            CelValue::from_list((0..n).map(|_| elem(rng, depth - 1)).collect())
        }
        _ => {
            let n = rng.below(3);
            let mut m = std::collections::HashMap::new();
            for _ in 0..n {
                m.insert(rng.pick(&["a", "b", "size"]).to_string(), elem(rng, depth - 1));
            }
            CelValue::from_map(m)
        }
    }
}

fn expect_val(rep: &mut Rep, sub: &str, src: &str, binds: &Binds, want: &CelValue) {
    let out = mon::run1(src, binds);
    rep.eval();
    rep.count(&format!("sub/{}", sub.split('|').next().unwrap()));
    let ok = matches!(&out, Out::Val(v) if canon(v) == canon(want));
    if !ok {
        let class = match &out {
            Out::Val(_) => "wrong-value",
            Out::Err(_) => "error",
            Out::Panic(..) => "panic",
        };
        rep.viol(
            &format!("{}|{}", sub, class),
            &format!("{} should be {}, got {}", mon::clip(src, 300), mon::clip(&canon(want), 300), out.show()),
            json!({"source": src, "bindings": mon::binds_json(binds), "expected": canon(want)}),
        );
    }
}

#[derive(PartialEq)]
enum ErrKind {
    Any,
    Absent,
}

fn expect_err(rep: &mut Rep, sub: &str, src: &str, binds: &Binds, kind: ErrKind) {
    let out = mon::run1(src, binds);
    rep.eval();
    rep.count(&format!("sub/{}", sub.split('|').next().unwrap()));
    let ok = match (&out, &kind) {
        (Out::Err(CelError::Attribute { .. }), ErrKind::Absent) => true,
        (Out::Err(_), ErrKind::Any) => true,
        _ => false,
    };
    if !ok {
        let class = match &out {
            Out::Val(_) => "value-instead-of-error",
            Out::Err(_) => "wrong-error-class",
            Out::Panic(..) => "panic",
        };
        rep.viol(
            &format!("{}|{}", sub, class),
            &format!(
                "{} should be {}, got {}",
                mon::clip(src, 300),
                if kind == ErrKind::Absent { "an absent-field error" } else { "an error" },
                out.show()
            ),
            json!({"source": src, "bindings": mon::binds_json(binds)}),
        );
    }
}

/// render a list/map element either as a literal or as a fresh bound variable
fn place(rng: &mut Rng, v: &CelValue, binds: &mut Binds, force_var: Option<bool>) -> String {
    let as_var = force_var.unwrap_or_else(|| rng.chance(1, 2));
    match (as_var, vals::spell(v)) {
        (false, Some(s)) => s,
        _ => {
            let name = format!("v{}", binds.len());
            binds.push((name.clone(), v.clone()));
            name
        }
    }
}

pub fn run(ctx: &mut Ctx) {
    // ---- list literals and indexing ------------------------------------------------------------
    let n = ctx.n(25_000, 400_000);
    ctx.stage("lists", n, true, |_idx, rng, rep| {
        let len = rng.below(9);
        let items: Vec<CelValue> = (0..len).map(|_| elem(rng, 2)).collect();
        let want = CelValue::from_list(items.clone());
        // three constructions: all literal (folded), all variables (MkList), mixed
        let mode = rng.below(3);
        let mut binds: Binds = Vec::new();
        let parts: Vec<String> = items
            .iter()
            .map(|v| place(rng, v, &mut binds, match mode { 0 => Some(false), 1 => Some(true), _ => None }))
            .collect();
        let lsrc = format!("[{}]", parts.join(", "));
        expect_val(rep, "list-literal", &lsrc, &binds, &want);
        // the list itself bound
        let mut b2 = binds.clone();
        b2.push(("l".to_string(), want.clone()));
        let n = len as i64;
        let mut idxs: Vec<i64> = ((-n - 2)..=(n + 2)).collect();
        idxs.extend([i64::MIN, i64::MIN + 1, i64::MAX, -4294967296, 4294967296, -4294967297, 4294967295, 2147483648, -2147483649]);
        for i in idxs {
            for (form, recv) in [("bound", "l".to_string()), ("literal", format!("({})", lsrc))] {
                let src = format!("{}[{}]", recv, vals::spell(&i.into()).unwrap());
                let src_var = format!("{}[i]", recv);
                let mut b3 = b2.clone();
                b3.push(("i".to_string(), i.into()));
                let pos = if i >= 0 { i } else { n + i };
                let in_range = if i >= 0 { i < n } else { i >= -n };
                if in_range {
                    expect_val(rep, &format!("index|{}", form), &src, &b2, &items[pos as usize]);
                    expect_val(rep, &format!("index-var|{}", form), &src_var, &b3, &items[pos as usize]);
                } else {
                    expect_err(rep, &format!("index-oob|{}", form), &src, &b2, ErrKind::Any);
                    expect_err(rep, &format!("index-oob-var|{}", form), &src_var, &b3, ErrKind::Any);
                }
            }
        }
        // uint indices count as integers
        for u in [0u64, 1, n as u64, n as u64 + 1, u64::MAX, 1 << 32, 1 << 63] {
            let mut b3 = b2.clone();
            b3.push(("i".to_string(), u.into()));
            if (u as u128) < n as u128 {
                expect_val(rep, "index-uint", "l[i]", &b3, &items[u as usize]);
                expect_val(rep, "index-uint-lit", &format!("l[{}u]", u), &b2, &items[u as usize]);
            } else {
                expect_err(rep, "index-uint-oob", "l[i]", &b3, ErrKind::Any);
                expect_err(rep, "index-uint-oob-lit", &format!("l[{}u]", u), &b2, ErrKind::Any);
            }
        }
        // non-integer indices
        for bad in [CelValue::from_float(0.0), "0".into(), true.into(), CelValue::from_null(), CelValue::from_float(f64::NAN), CelValue::from_list(vec![0.into()])] {
            let mut b3 = b2.clone();
            b3.push(("i".to_string(), bad.clone()));
            expect_err(rep, &format!("index-type|{}", mon::vtype(&bad)), "l[i]", &b3, ErrKind::Any);
            if let Some(s) = vals::spell(&bad) {
                expect_err(rep, &format!("index-type-lit|{}", mon::vtype(&bad)), &format!("l[{}]", s), &b2, ErrKind::Any);
            }
        }
        // size
        expect_val(rep, "size-list", "size(l)", &b2, &(len as u64).into());
        expect_val(rep, "size-list-method", "l.size()", &b2, &(len as u64).into());
        expect_val(rep, "size-list-literal", &format!("size({})", lsrc), &binds, &(len as u64).into());
        // membership: present elements, and values that are in no element's class
        for (k, it) in items.iter().enumerate() {
            if !has_nan(it) {
                let mut b3 = b2.clone();
                b3.push(("x".to_string(), it.clone()));
                expect_val(rep, "in-list-present", "x in l", &b3, &true.into());
                if k == 0 {
                    if let Some(s) = vals::spell(it) {
                        expect_val(rep, "in-list-present-lit", &format!("{} in {}", s, lsrc), &binds, &true.into());
                    }
                }
            }
        }
        let probe = elem(rng, 0);
        if !items.iter().any(|e| maybe_equal(e, &probe)) {
            let mut b3 = b2.clone();
            b3.push(("x".to_string(), probe));
            expect_val(rep, "in-list-absent", "x in l", &b3, &false.into());
        }
        // concatenation keeps order
        let len2 = rng.below(5);
        let items2: Vec<CelValue> = (0..len2).map(|_| elem(rng, 1)).collect();
        let mut cat = items.clone();
        cat.extend(items2.clone());
        let mut b3 = b2.clone();
        b3.push(("r".to_string(), CelValue::from_list(items2.clone())));
        expect_val(rep, "concat-list", "l + r", &b3, &CelValue::from_list(cat.clone()));
        if let Some(s2) = vals::spell(&CelValue::from_list(items2)) {
            expect_val(rep, "concat-list-lit", &format!("{} + {}", lsrc, s2), &binds, &CelValue::from_list(cat));
        }
        rep.distinct(&lsrc, len >= 1);
        rep.sample(|| json!({"stage":"lists","list":mon::clip(&lsrc, 120),"len":len}));
    });

    // ---- maps: duplicates, access, membership ----------------------------------------------------
    let nm = ctx.n(25_000, 400_000);
    ctx.stage("maps", nm, true, |_idx, rng, rep| {
        const KEYS: [&str; 8] = ["a", "b", "c", "size", "map", "é", "", "has"];
        let nent = rng.below(7);
        let mut entries: Vec<(String, CelValue)> = Vec::new();
        for _ in 0..nent {
            // duplicates on purpose: draw from few keys
            let k = if rng.chance(1, 2) { KEYS[rng.below(3)] } else { *rng.pick(&KEYS) };
            entries.push((k.to_string(), elem(rng, 2)));
        }
        // model: insertion order, last wins
        let mut model: Vec<(String, CelValue)> = Vec::new();
        for (k, v) in &entries {
            if let Some(e) = model.iter_mut().find(|(mk, _)| mk == k) {
                e.1 = v.clone();
            } else {
                model.push((k.clone(), v.clone()));
            }
        }
        let want = {
            let mut m = std::collections::HashMap::new();
            for (k, v) in &model {
                m.insert(k.clone(), v.clone());
            }
            CelValue::from_map(m)
        };
        let mode = rng.below(4);
        let mut binds: Binds = Vec::new();
        let mut parts: Vec<String> = Vec::new();
        for (k, v) in &entries {
            let kv = CelValue::from_string(k.clone());
            let key_as_var = rng.chance(1, 5);
            let ks = place(rng, &kv, &mut binds, match mode { 0 => Some(false), 1 => Some(true), _ => Some(key_as_var) });
            let vs = place(rng, v, &mut binds, match mode { 0 => Some(false), 1 => Some(true), _ => None });
            parts.push(format!("{}: {}", ks, vs));
        }
        let msrc = format!("{{{}}}", parts.join(", "));
        let dup = entries.len() != model.len();
        expect_val(rep, if dup { "map-literal-dup" } else { "map-literal" }, &msrc, &binds, &want);
        let mut b2 = binds.clone();
        b2.push(("m".to_string(), want.clone()));
        for k in KEYS.iter().chain(["zz", "A", "a "].iter()) {
            let stored = model.iter().find(|(mk, _)| mk == k).map(|(_, v)| v.clone());
            let kl = vals::spell_string(k);
            let ident_ok = !k.is_empty() && k.chars().all(|c| c.is_ascii_alphanumeric() || c == '_') && !["in", "null", "true", "false", "match", "case"].contains(k);
            let mut b3 = b2.clone();
            b3.push(("k".to_string(), (*k).into()));
            match stored {
                Some(v) => {
                    expect_val(rep, "map-index", &format!("m[{}]", kl), &b2, &v);
                    expect_val(rep, "map-index-var", "m[k]", &b3, &v);
                    expect_val(rep, if dup { "map-index-literal-dup" } else { "map-index-literal" }, &format!("({})[{}]", msrc, kl), &binds, &v);
                    expect_val(rep, "in-map-present", &format!("{} in m", kl), &b2, &true.into());
                    expect_val(rep, "in-map-present-var", "k in m", &b3, &true.into());
                    if ident_ok {
                        // a field name is a name, never a variable: same value when variables spelled like the field
                        // (or like every key) are bound, and when a macro's loop variable carries that spelling
                        let mut b4 = b2.clone();
                        for kk in KEYS.iter().filter(|kk| !kk.is_empty() && kk.is_ascii()) {
                            b4.push((kk.to_string(), CelValue::from_int(7)));
                        }
                        b4.push((k.to_string(), CelValue::from_string("shadow".to_string())));
                        expect_val(rep, "map-field-shadowed", &format!("m.{}", k), &b4, &v);
                        expect_val(rep, "map-field-shadowed-nested", &format!("[m][0].{}", k), &b4, &v);
                        expect_val(rep, "map-field-shadowed-literal", &format!("({}).{}", msrc, k), &{ let mut x = binds.clone(); x.push((k.to_string(), CelValue::from_int(7))); x }, &v);
                        if !["size", "map", "has"].contains(k) {
                            expect_val(rep, "map-field-loopvar", &format!("[1].map({}, m.{})[0]", k, k), &b2, &v);
                            expect_val(rep, "map-field-loopvar-self", &format!("[m].map({}, {}.{})[0]", k, k, k), &b2, &v);
                        }
                        expect_val(rep, "map-field", &format!("m.{}", k), &b2, &v);
                        expect_val(rep, if dup { "map-field-literal-dup" } else { "map-field-literal" }, &format!("({}).{}", msrc, k), &binds, &v);
                    }
                }
                None => {
                    expect_err(rep, "map-index-absent", &format!("m[{}]", kl), &b2, ErrKind::Absent);
                    expect_err(rep, "map-index-absent-var", "m[k]", &b3, ErrKind::Absent);
                    expect_err(rep, "map-index-absent-literal", &format!("({})[{}]", msrc, kl), &binds, ErrKind::Absent);
                    expect_val(rep, "in-map-absent", &format!("{} in m", kl), &b2, &false.into());
                    if ident_ok {
                        let mut b4 = b2.clone();
                        b4.push((k.to_string(), CelValue::from_string("a".to_string())));
                        expect_err(rep, "map-field-absent-shadowed", &format!("m.{}", k), &b4, ErrKind::Absent);
                        // also when the field name is the name of a built-in method (size, map, has)
                        expect_err(rep, &format!("map-field-absent|{}", if ["size", "map", "has"].contains(k) { "method-name" } else { "plain" }),
                                   &format!("m.{}", k), &b2, ErrKind::Absent);
                        expect_err(rep, "map-field-absent-literal", &format!("({}).{}", msrc, k), &binds, ErrKind::Absent);
                    }
                }
            }
        }
        // non-string key against a map / non-string in a string: error
        for bad in [CelValue::from_int(1), true.into(), CelValue::from_null(), CelValue::from_list(vec![])] {
            let mut b3 = b2.clone();
            b3.push(("x".to_string(), bad.clone()));
            expect_err(rep, &format!("in-map-nonstring|{}", mon::vtype(&bad)), "x in m", &b3, ErrKind::Any);
            expect_err(rep, &format!("map-index-nonstring|{}", mon::vtype(&bad)), "m[x]", &b3, ErrKind::Any);
        }
        rep.distinct(&msrc, entries.len() >= 1);
        rep.sample(|| json!({"stage":"maps","map":mon::clip(&msrc, 120),"duplicates":dup}));
    });

    // ---- strings / bytes: size, concat, substring membership; `in` on other right-hand types -----
    let ns = ctx.n(30_000, 300_000);
    let pool = vals::full_pool();
    ctx.stage("strings", ns, true, |_idx, rng, rep| {
        let s = vals::random_string(rng, 8);
        let t = vals::random_string(rng, 3);
        let b: Binds = vec![("s".to_string(), s.as_str().into()), ("t".to_string(), t.as_str().into())];
        expect_val(rep, "size-string", "size(s)", &b, &(s.len() as u64).into());
        expect_val(rep, "size-string-method", "s.size()", &b, &(s.len() as u64).into());
        expect_val(rep, "size-string-literal", &format!("size({})", vals::spell_string(&s)), &vec![], &(s.len() as u64).into());
        expect_val(rep, "concat-string", "s + t", &b, &format!("{}{}", s, t).as_str().into());
        expect_val(rep, "concat-string-lit", &format!("{} + {}", vals::spell_string(&s), vals::spell_string(&t)), &vec![], &format!("{}{}", s, t).as_str().into());
        expect_val(rep, "in-string", "t in s", &b, &s.contains(&t).into());
        expect_val(rep, "in-string-lit", &format!("{} in {}", vals::spell_string(&t), vals::spell_string(&s)), &vec![], &s.contains(&t).into());
        let by: Vec<u8> = (0..rng.below(6)).map(|_| rng.next() as u8).collect();
        let by2: Vec<u8> = (0..rng.below(4)).map(|_| rng.next() as u8).collect();
        let bb: Binds = vec![("x".to_string(), CelValue::from_bytes(by.clone())), ("y".to_string(), CelValue::from_bytes(by2.clone()))];
        expect_val(rep, "size-bytes", "size(x)", &bb, &(by.len() as u64).into());
        expect_val(rep, "size-bytes-method", "x.size()", &bb, &(by.len() as u64).into());
        let mut cat = by.clone();
        cat.extend(by2.clone());
        expect_val(rep, "concat-bytes", "x + y", &bb, &CelValue::from_bytes(cat.clone()));
        expect_val(rep, "concat-bytes-lit", &format!("{} + {}", vals::spell_bytes(&by), vals::spell_bytes(&by2)), &vec![], &CelValue::from_bytes(cat));
        // `in` with a right-hand side that is neither list, map nor string: error
        let rhs = rng.pick(&pool).clone();
        if !matches!(rhs, CelValue::List(_) | CelValue::Map(_) | CelValue::String(_)) {
            let lhs = rng.pick(&pool).clone();
            let b3: Binds = vec![("a".to_string(), lhs), ("b".to_string(), rhs.clone())];
            expect_err(rep, &format!("in-bad-rhs|{}", mon::vtype(&rhs)), "a in b", &b3, ErrKind::Any);
        }
        // non-string left of a string
        let lhs = rng.pick(&pool).clone();
        if !matches!(lhs, CelValue::String(_)) {
            let b3: Binds = vec![("a".to_string(), lhs.clone()), ("s".to_string(), s.as_str().into())];
            expect_err(rep, &format!("in-string-nonstring|{}", mon::vtype(&lhs)), "a in s", &b3, ErrKind::Any);
        }
        rep.distinct(&format!("{}|{}", s, t), true);
    });
}

fn has_nan(v: &CelValue) -> bool {
    match v {
        CelValue::Float(f) => f.is_nan(),
        CelValue::List(l) => l.iter().any(has_nan),
        CelValue::Map(m) => m.values().any(has_nan),
        _ => false,
    }
}

/// could `a == b` possibly be true under any reading of equality (same class of value)?
fn maybe_equal(a: &CelValue, b: &CelValue) -> bool {
    use CelValue::*;
    match (a, b) {
        (Int(_) | UInt(_) | Float(_) | Bool(_), Int(_) | UInt(_) | Float(_) | Bool(_)) => {
            let f = |v: &CelValue| match v {
                Int(i) => *i as f64,
                UInt(u) => *u as f64,
                Float(f) => *f,
                Bool(b) => *b as i64 as f64,
                _ => 0.0,
            };
            f(a) == f(b)
        }
        (List(_), List(_)) | (Map(_), Map(_)) => true,
        _ => canon(a) == canon(b),
    }
}
