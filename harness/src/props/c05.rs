//! C05 - ||, &&, ?: and match are lazy and absorb failures by fixed rules; one truthiness.
//! Laziness is observed through bound functions that record every call (unique ids).

use std::cell::RefCell;
use std::rc::Rc;

use rscel::{BindContext, CelContext, CelError, CelValue};
use serde_json::json;

use crate::gen::{self, bin, call, lit, var, BinOp, Pat, E};
use crate::mon::{self, canon, Ctx, Out, Rep};
use crate::rng::Rng;
use crate::vals;

#[derive(Clone, Debug, PartialEq)]
pub enum Atom {
    /// obs(id, v): logs id, returns v
    Obs(CelValue),
    /// boom(id): logs id, returns an error value
    Boom,
    /// a literal (no log)
    Lit(CelValue),
    /// a bound variable `bv<k>` with this value (no log)
    Var(CelValue),
    /// an identifier nobody binds
    Unbound,
    /// 1 / zero with zero bound to 0 (run-time failure)
    DivZeroVar,
    /// 1 / 0 (compile-time failure)
    DivZeroLit,
}

#[derive(Clone, Debug)]
pub enum L {
    A(usize, Atom),
    Or(Box<L>, Box<L>),
    And(Box<L>, Box<L>),
    Not(Box<L>),
    Tern(Box<L>, Box<L>, Box<L>),
    /// match over an int scrutinee held in an obs atom; patterns are int literals or `_`
    Match(usize, i64, Vec<(Option<i64>, L)>),
}

#[derive(Clone, Debug, PartialEq)]
pub enum R {
    Val(CelValue),
    Fail,
}

pub fn truthy(v: &CelValue) -> bool {
    match v {
        CelValue::Int(i) => *i != 0,
        CelValue::UInt(u) => *u != 0,
        CelValue::Float(f) => *f != 0.0,
        CelValue::Bool(b) => *b,
        CelValue::String(s) => !s.is_empty(),
        CelValue::Bytes(b) => b.len() != 0,
        CelValue::List(l) => !l.is_empty(),
        CelValue::Map(m) => !m.is_empty(),
        CelValue::Null => false,
        CelValue::Type(_) | CelValue::TimeStamp(_) | CelValue::Duration(_) => true,
        _ => false,
    }
}

fn r_truthy(r: &R) -> Option<bool> {
    match r {
        R::Val(v) => Some(truthy(v)),
        R::Fail => None,
    }
}

/// reference semantics from the statement; appends call ids to `log`
pub fn model(t: &L, log: &mut Vec<i64>) -> R {
    match t {
        L::A(id, a) => match a {
            Atom::Obs(v) => {
                log.push(*id as i64);
                R::Val(v.clone())
            }
            Atom::Boom => {
                log.push(*id as i64);
                R::Fail
            }
            Atom::Lit(v) | Atom::Var(v) => R::Val(v.clone()),
            Atom::Unbound | Atom::DivZeroVar | Atom::DivZeroLit => R::Fail,
        },
        L::Or(a, b) => {
            let ra = model(a, log);
            if r_truthy(&ra) == Some(true) {
                return R::Val(true.into());
            }
            let rb = model(b, log);
            if r_truthy(&rb) == Some(true) {
                return R::Val(true.into());
            }
            if ra == R::Fail || rb == R::Fail {
                R::Fail
            } else {
                R::Val(false.into())
            }
        }
        L::And(a, b) => {
            let ra = model(a, log);
            match r_truthy(&ra) {
                None => R::Fail,
                Some(false) => R::Val(false.into()),
                Some(true) => match r_truthy(&model(b, log)) {
                    None => R::Fail,
                    Some(t) => R::Val(t.into()),
                },
            }
        }
        L::Not(a) => match r_truthy(&model(a, log)) {
            None => R::Fail,
            Some(t) => R::Val((!t).into()),
        },
        L::Tern(c, x, y) => match r_truthy(&model(c, log)) {
            None => R::Fail,
            Some(true) => model(x, log),
            Some(false) => model(y, log),
        },
        L::Match(id, scrut, cases) => {
            log.push(*id as i64);
            for (p, arm) in cases {
                if p.map(|v| v == *scrut).unwrap_or(true) {
                    return model(arm, log);
                }
            }
            R::Val(CelValue::from_null())
        }
    }
}

pub fn to_expr(t: &L, binds: &mut Vec<(String, CelValue)>) -> E {
    match t {
        L::A(id, a) => match a {
            Atom::Obs(v) => call("obs", vec![lit(*id as i64), E::Lit(v.clone())]),
            Atom::Boom => call("boom", vec![lit(*id as i64)]),
            Atom::Lit(v) => E::Lit(v.clone()),
            Atom::Var(v) => {
                let name = format!("bv{}", id);
                binds.push((name.clone(), v.clone()));
                var(&name)
            }
            Atom::Unbound => var("nobody_binds_this"),
            Atom::DivZeroVar => E::Paren(Box::new(bin(BinOp::Div, lit(1), var("zero")))),
            Atom::DivZeroLit => E::Paren(Box::new(bin(BinOp::Div, lit(1), lit(0)))),
        },
        L::Or(a, b) => bin(BinOp::Or, to_expr(a, binds), to_expr(b, binds)),
        L::And(a, b) => bin(BinOp::And, to_expr(a, binds), to_expr(b, binds)),
        L::Not(a) => E::Un('!', 1, Box::new(to_expr(a, binds))),
        L::Tern(c, x, y) => gen::tern(to_expr(c, binds), to_expr(x, binds), to_expr(y, binds)),
        L::Match(id, scrut, cases) => E::Match(
            Box::new(call("obs", vec![lit(*id as i64), lit(*scrut)])),
            cases
                .iter()
                .map(|(p, arm)| {
                    (
                        match p {
                            Some(v) => Pat::Cmp(String::new(), lit(*v)),
                            None => Pat::Any,
                        },
                        to_expr(arm, binds),
                    )
                })
                .collect(),
        ),
    }
}

const ATOM_VALUES: [fn() -> CelValue; 10] = [
    || true.into(),
    || false.into(),
    || 5.into(),
    || 0.into(),
    || "x".into(),
    || "".into(),
    || CelValue::from_null(),
    || 0.0.into(),
    || CelValue::from_list(vec![1.into()]),
    || CelValue::from_list(vec![]),
];

fn atom_kinds() -> Vec<Atom> {
    vec![
        Atom::Obs(true.into()),
        Atom::Obs(false.into()),
        Atom::Obs(5.into()),
        Atom::Obs("".into()),
        Atom::Boom,
        Atom::Lit(true.into()),
        Atom::Lit(false.into()),
        Atom::Var(true.into()),
        Atom::Var(0.into()),
        Atom::Unbound,
        Atom::DivZeroVar,
        Atom::DivZeroLit,
    ]
}

fn random_atom(rng: &mut Rng, next_id: &mut usize) -> L {
    *next_id += 1;
    let id = *next_id;
    let a = match rng.below(12) {
        0..=3 => Atom::Obs(ATOM_VALUES[rng.below(10)]()),
        4 => Atom::Boom,
        5 => Atom::Lit(ATOM_VALUES[rng.below(10)]()),
        6 | 7 => Atom::Var(ATOM_VALUES[rng.below(10)]()),
        8 => Atom::Unbound,
        9 => Atom::DivZeroVar,
        10 => Atom::DivZeroLit,
        _ => Atom::Obs(true.into()),
    };
    L::A(id, a)
}

fn random_tree(rng: &mut Rng, ops: usize, next_id: &mut usize) -> L {
    if ops == 0 {
        return random_atom(rng, next_id);
    }
    match rng.below(10) {
        0..=2 => {
            let l = rng.below(ops);
            L::Or(Box::new(random_tree(rng, l, next_id)), Box::new(random_tree(rng, ops - 1 - l, next_id)))
        }
        3..=5 => {
            let l = rng.below(ops);
            L::And(Box::new(random_tree(rng, l, next_id)), Box::new(random_tree(rng, ops - 1 - l, next_id)))
        }
        6 => L::Not(Box::new(random_tree(rng, ops - 1, next_id))),
        7 | 8 => {
            let a = rng.below(ops);
            let b = rng.below(ops - a);
            L::Tern(
                Box::new(random_tree(rng, a, next_id)),
                Box::new(random_tree(rng, b, next_id)),
                Box::new(random_tree(rng, ops - 1 - a - b, next_id)),
            )
        }
        _ => {
            *next_id += 1;
            let id = *next_id;
            let scrut = rng.range(0, 3);
            let n = 1 + rng.below(3);
            let mut cases = Vec::new();
            let mut left = ops - 1;
            for k in 0..n {
                let p = if rng.chance(1, 4) { None } else { Some(rng.range(0, 3)) };
                let take = if k + 1 == n { left.min(3) } else { rng.below(left + 1).min(3) };
                left -= take;
                cases.push((p, random_tree(rng, take, next_id)));
            }
            L::Match(id, scrut, cases)
        }
    }
}

/// execute `src` with the logging functions bound; returns outcome and call log
pub fn exec_logged(src: &str, binds: &[(String, CelValue)]) -> (Out, Vec<i64>) {
    let log: Rc<RefCell<Vec<i64>>> = Rc::new(RefCell::new(Vec::new()));
    let l1 = log.clone();
    let obs = move |_this: CelValue, args: Vec<CelValue>| -> CelValue {
        if let Some(CelValue::Int(id)) = args.first() {
            l1.borrow_mut().push(*id);
        }
        args.get(1).cloned().unwrap_or(CelValue::from_null())
    };
    let l2 = log.clone();
    let boom = move |_this: CelValue, args: Vec<CelValue>| -> CelValue {
        if let Some(CelValue::Int(id)) = args.first() {
            l2.borrow_mut().push(*id);
        }
        CelValue::from_err(CelError::value("boom"))
    };
    let mut ctx = CelContext::new();
    let out = match mon::catch(|| ctx.add_program_str("main", src)) {
        Ok(Ok(())) => {
            let mut b = BindContext::new();
            for (k, v) in binds {
                b.bind_param(k, v.clone());
            }
            b.bind_param("zero", 0.into());
            b.bind_func("obs", &obs);
            b.bind_func("boom", &boom);
            mon::exec_prog(&mut ctx, "main", &b)
        }
        Ok(Err(e)) => Out::Err(e),
        Err((m, l)) => Out::Panic(m, l),
    };
    let l = log.borrow().clone();
    (out, l)
}

fn shape(t: &L) -> String {
    match t {
        L::A(_, a) => match a {
            Atom::Obs(v) => format!("obs:{}", if truthy(v) { "T" } else { "F" }),
            Atom::Boom => "boom".into(),
            Atom::Lit(v) => format!("lit:{}", if truthy(v) { "T" } else { "F" }),
            Atom::Var(v) => format!("var:{}", if truthy(v) { "T" } else { "F" }),
            Atom::Unbound => "unbound".into(),
            Atom::DivZeroVar => "div0var".into(),
            Atom::DivZeroLit => "div0lit".into(),
        },
        L::Or(..) => "||".into(),
        L::And(..) => "&&".into(),
        L::Not(..) => "!".into(),
        L::Tern(..) => "?:".into(),
        L::Match(..) => "match".into(),
    }
}

fn check_tree(rep: &mut Rep, t: &L, stage: &str) {
    let mut binds = Vec::new();
    let e = to_expr(t, &mut binds);
    let src = gen::src(&e);
    let mut want_log = Vec::new();
    let want = model(t, &mut want_log);
    let (out, log) = exec_logged(&src, &binds);
    rep.eval();
    let root = shape(t);
    rep.count(&format!("root/{}", root));
    let case = || json!({"source": src, "bindings": mon::binds_json(&binds), "expected": format!("{:?}", want).chars().take(200).collect::<String>(),
        "expected_calls": want_log, "observed_calls": log, "outcome": out.show()});
    let value_ok = match (&want, &out) {
        (_, Out::Panic(..)) => false,
        (R::Fail, Out::Err(_)) => true,
        (R::Val(v), Out::Val(o)) => canon(v) == canon(o),
        _ => false,
    };
    if !value_ok {
        let class = match (&want, &out) {
            (_, Out::Panic(..)) => "panic",
            (R::Fail, _) => "should-fail",
            (_, Out::Err(_)) => "should-not-fail",
            _ => "wrong-value",
        };
        rep.viol(&format!("result|{}|{}", root, class), &format!("{}: expected {:?}, got {}", src, want, out.show()), case());
    }
    if log != want_log {
        let class = if log.len() > want_log.len() { "evaluated-too-much" } else if log.len() < want_log.len() { "evaluated-too-little" } else { "order" };
        rep.viol(
            &format!("laziness|{}|{}", root, class),
            &format!("{}: calls observed {:?}, expected {:?}", src, log, want_log),
            case(),
        );
    }
    let lazy_op = want_log.len() >= 1;
    rep.distinct(&src, lazy_op);
    rep.sample(|| json!({"stage": stage, "source": src, "calls": log, "outcome": out.show()}));
}

pub fn run(ctx: &mut Ctx) {
    let kinds = atom_kinds();
    let nk = kinds.len() as u64;

    // ---- exhaustive: one operator over every pair / triple of atom kinds ----------------------
    ctx.stage("one-op", nk * nk, false, |idx, _rng, rep| {
        let a = L::A(1, kinds[(idx / nk) as usize].clone());
        let b = L::A(2, kinds[(idx % nk) as usize].clone());
        check_tree(rep, &L::Or(Box::new(a.clone()), Box::new(b.clone())), "one-op");
        check_tree(rep, &L::And(Box::new(a.clone()), Box::new(b.clone())), "one-op");
        check_tree(rep, &L::Not(Box::new(a.clone())), "one-op");
        for c in &kinds {
            let c = L::A(3, c.clone());
            check_tree(rep, &L::Tern(Box::new(c), Box::new(a.clone()), Box::new(b.clone())), "one-op");
        }
    });
    // ---- exhaustive: two binary operators, both groupings ---------------------------------------
    ctx.stage("two-ops", nk * nk * nk, false, |idx, _rng, rep| {
        let a = L::A(1, kinds[(idx / (nk * nk)) as usize].clone());
        let b = L::A(2, kinds[((idx / nk) % nk) as usize].clone());
        let c = L::A(3, kinds[(idx % nk) as usize].clone());
        let mk = |op: u8, x: L, y: L| if op == 0 { L::Or(Box::new(x), Box::new(y)) } else { L::And(Box::new(x), Box::new(y)) };
        for o1 in 0..2u8 {
            for o2 in 0..2u8 {
                check_tree(rep, &mk(o1, mk(o2, a.clone(), b.clone()), c.clone()), "two-ops");
                check_tree(rep, &mk(o1, a.clone(), mk(o2, b.clone(), c.clone())), "two-ops");
            }
            // condition / arms built from an operator
            check_tree(rep, &L::Tern(Box::new(mk(o1, a.clone(), b.clone())), Box::new(c.clone()), Box::new(a.clone())), "two-ops");
            check_tree(rep, &L::Tern(Box::new(c.clone()), Box::new(mk(o1, a.clone(), b.clone())), Box::new(b.clone())), "two-ops");
            check_tree(rep, &L::Not(Box::new(mk(o1, a.clone(), b.clone()))), "two-ops");
        }
    });

    // ---- random larger trees ---------------------------------------------------------------------
    let n = ctx.n(150_000, 1_500_000);
    ctx.stage("random-trees", n, true, |_idx, rng, rep| {
        let ops = 1 + rng.below(12);
        let mut id = 0;
        let t = random_tree(rng, ops, &mut id);
        check_tree(rep, &t, "random-trees");
    });

    // ---- one truthiness everywhere ---------------------------------------------------------------
    let pool = vals::full_pool();
    ctx.stage("truthiness", pool.len() as u64, false, |idx, _rng, rep| {
        let v = &pool[idx as usize];
        let t = truthy(v);
        let contexts: [(&str, &str, CelValue); 18] = [
            ("ternary", "{} ? 1 : 0", (if t { 1 } else { 0 }).into()),
            ("not", "!{}", (!t).into()),
            // runs of `!`: each operator negates the truthiness of what it is applied to, so the result is a bool
            ("not-not", "!!{}", t.into()),
            ("not-x3", "!!!{}", (!t).into()),
            ("not-x4", "!!!!{}", t.into()),
            ("not-spaced", "! ! {}", t.into()),
            ("not-nested", "!(!({}))", t.into()),
            ("not-not-in-list", "[!!{}][0]", t.into()),
            ("not-not-eq", "!!{} == true", t.into()),
            ("not-of-ternary", "!({} ? {} : {})", (!t).into()),
            ("or-self", "{} || {}", t.into()),
            ("or-false", "{} || false", t.into()),
            ("and-true", "{} && true", t.into()),
            ("all", "[{}].all(x, x)", t.into()),
            ("exists", "[{}].exists(x, x)", t.into()),
            ("filter", "size([{}].filter(x, x))", (t as u64).into()),
            ("map3", "size([{}].map(x, x, 1))", (t as u64).into()),
            ("bool", "bool({})", t.into()),
        ];
        for (name, tpl, want) in contexts.iter() {
            // the ten boolean spellings are conversions (C14), not truthiness
            if *name == "bool" {
                if let CelValue::String(s) = v {
                    if ["1", "t", "true", "TRUE", "True", "0", "f", "false", "FALSE", "False"].contains(&s.as_str()) {
                        continue;
                    }
                }
            }
            let mut forms: Vec<(&str, String, Vec<(String, CelValue)>)> =
                vec![("variable", tpl.replace("{}", "v"), vec![("v".to_string(), v.clone())])];
            if let Some(s) = vals::spell(v) {
                forms.push(("literal", tpl.replace("{}", &s), vec![]));
            }
            for (form, src, binds) in forms {
                let out = mon::run1(&src, &binds);
                rep.eval();
                rep.count(&format!("truthiness/{}", name));
                let ok = matches!(&out, Out::Val(o) if canon(o) == canon(want));
                if !ok {
                    rep.viol(
                        &format!("truthiness|{}|{}|{}", name, form, mon::vtype(v)),
                        &format!("{} with v={} (model: {}): expected {}, got {}", src, mon::clip(&canon(v), 100), if t { "truthy" } else { "falsy" }, canon(want), out.show()),
                        json!({"source": src, "v": canon(v)}),
                    );
                }
            }
        }
        rep.distinct(&canon(v), true);
    });
}
