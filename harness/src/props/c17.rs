//! C17 - the reported parameter list covers every variable a program can read.
//! Ground truth: the generator's own free-variable computation (independent of the SUT) and the
//! evaluation-relevance criterion (changing an unreported name must not change the result).

use std::collections::BTreeSet;

use rscel::{BindContext, CelError, CelValue, RsCelMacro};
use serde_json::json;

use crate::corpus::{NAMES_FUNCS, NAMES_MACROS};
use crate::gen::{self, Gen, GenCfg, Parens, Ty, VarDecl, Ws};
use crate::mon::{self, Ctx, Out, Rep};
use crate::rng::Rng;

const TEMPLATES: &[(&str, &[&str])] = &[
    ("size(y)", &["y"]),
    ("x.contains(y)", &["x", "y"]),
    ("l.map(v, v + q)", &["l", "q"]),
    ("l.map(v, p, v + q)", &["l", "p", "q"]),
    ("l.filter(v, v > q).size()", &["l", "q"]),
    ("l.reduce(acc, v, acc + v + q, s)", &["l", "q", "s"]),
    ("l.all(v, m.exists(w, w == v + q))", &["l", "m", "q"]),
    ("f'{x}'", &["x"]),
    ("f'a{x + y}b{z}'", &["x", "y", "z"]),
    ("l[i]", &["l", "i"]),
    ("m[k].f", &["m", "k"]),
    ("{k: v}", &["k", "v"]),
    ("{'a': v}.a", &["v"]),
    ("[a, b, c]", &["a", "b", "c"]),
    ("match s { case p: a, case > q: b, case _: c }", &["s", "p", "a", "q", "b", "c"]),
    ("match f(s) { case int: a, case _: b }", &["s", "a", "b"]),
    ("true ? a : b", &["a", "b"]),
    ("false && a", &["a"]),
    ("true || a", &["a"]),
    ("c ? a : b", &["c", "a", "b"]),
    ("has(a.b) ? a.b : d", &["a", "d"]),
    ("coalesce(a, b.c, d)", &["a", "b", "d"]),
    ("int(a) + uint(b) + double(c)", &["a", "b", "c"]),
    ("timestamp(t).getFullYear(z)", &["t", "z"]),
    ("min(a, b) + max(c, d)", &["a", "b", "c", "d"]),
    ("a.f(b).g(c)[d]", &["a", "b", "c", "d"]),
    ("-a + !b", &["a", "b"]),
    ("a in b", &["a", "b"]),
    ("type(a) == int", &["a"]),
    ("[1].map(x, x + x0)", &["x0"]),
    ("[x].map(x, x)", &["x"]),
    ("l.map(x, x).filter(y, y > x)", &["l", "x"]),
    ("l.map(size, size + 1)", &["l"]),
    ("zip(a, b)", &["a", "b"]),
    ("uomConvert(v, f, t)", &["v", "f", "t"]),
    ("dyn(a)", &["a"]),
    ("string(a) + 'x'", &["a"]),
    ("[[a]][0][b]", &["a", "b"]),
    ("{'k': {'j': a}}.k.j", &["a"]),
    ("l.exists_one(v, v == a)", &["l", "a"]),
    ("sort(a)", &["a"]),
    ("a.sort()", &["a"]),
];

fn reported(p: &rscel::Program) -> BTreeSet<String> {
    p.params().into_iter().map(|s| s.to_string()).collect()
}

fn check_coverage(rep: &mut Rep, kind: &str, src: &str, free: &[String], idents: &[String]) -> Option<rscel::Program> {
    rep.eval();
    let prog = match mon::compile(src) {
        Ok(p) => p,
        Err(o) => {
            if o.is_panic() {
                rep.viol("compile-panic", &o.show(), json!({"source": src}));
            }
            rep.count("compile_rejected");
            return None;
        }
    };
    let rp = reported(&prog);
    rep.count(&format!("programs/{}", kind));
    let missing: Vec<&String> = free.iter().filter(|v| !rp.contains(*v)).collect();
    if !missing.is_empty() {
        rep.viol(
            &format!("coverage|{}|missing-variable", kind),
            &format!("{}: variables read {:?} but reported parameters are {:?}; missing {:?}", mon::clip(src, 300), free, rp, missing),
            json!({"source": src, "variables_read": free, "reported": rp}),
        );
    }
    let extra: Vec<&String> = rp.iter().filter(|v| !idents.contains(*v)).collect();
    if !extra.is_empty() {
        rep.viol(
            &format!("coverage|{}|name-not-in-source", kind),
            &format!("{}: reported {:?} do not occur in the source", mon::clip(src, 300), extra),
            json!({"source": src, "reported": rp}),
        );
    }
    Some(prog)
}

fn idents_of(src: &str) -> Vec<String> {
    let mut out = Vec::new();
    let mut cur = String::new();
    for c in src.chars().chain(" ".chars()) {
        if c.is_ascii_alphanumeric() || c == '_' {
            cur.push(c);
        } else {
            if !cur.is_empty() && !cur.chars().next().unwrap().is_ascii_digit() {
                out.push(cur.clone());
            }
            cur.clear();
        }
    }
    out
}

fn check_filter(rep: &mut Rep, src: &str, prog: &rscel::Program, bound_params: &[String]) {
    // the call the wasm celDetails entry point makes (with BindContext::new()) plus bound params,
    // a bound function and a bound macro
    let f = |_this: CelValue, _args: Vec<CelValue>| -> CelValue { CelValue::from_null() };
    let mut b = BindContext::new();
    for p in bound_params {
        b.bind_param(p, 1.into());
    }
    b.bind_func("userfn", &f);
    let user_macro: &RsCelMacro = &|_i, this, _args| this;
    b.bind_macro("usermacro", user_macro);
    let before = reported(prog);
    let mut details = prog.details().clone();
    details.filter_from_bindings(&b);
    let after: BTreeSet<String> = details.params().into_iter().map(|s| s.to_string()).collect();
    let mut removed: BTreeSet<String> = BTreeSet::new();
    removed.extend(bound_params.iter().cloned());
    removed.extend(NAMES_FUNCS.iter().map(|s| s.to_string()));
    removed.extend(NAMES_MACROS.iter().map(|s| s.to_string()));
    removed.insert("userfn".into());
    removed.insert("usermacro".into());
    let want: BTreeSet<String> = before.difference(&removed).cloned().collect();
    rep.eval();
    rep.count("filter_checks");
    if after != want {
        rep.viol(
            "filter|wrong-set",
            &format!("{}: filter_from_bindings left {:?}, expected {:?} (reported {:?})", mon::clip(src, 200), after, want, before),
            json!({"source": src, "reported": before, "after_filter": after, "expected": want, "bound_params": bound_params}),
        );
    }
}

fn check_relevance(rep: &mut Rep, kind: &str, src: &str, prog: &rscel::Program, binds: &[(String, CelValue)], var_names: &[String], idents: &[String]) {
    let rp = reported(prog);
    // 1. with every reported name bound, no unbound-variable failure
    let base = mon::run_prog(prog, binds);
    rep.eval();
    if let Out::Err(CelError::Binding { symbol }) = &base {
        if var_names.contains(symbol) && binds.iter().any(|(k, _)| k == symbol) {
            rep.viol(&format!("relevance|{}|bound-but-unbound", kind), &format!("{}: {} is bound but evaluation says it is not", src, symbol), json!({"source": src}));
        }
    }
    if base.is_panic() {
        return;
    }
    // 2. names that are not reported must be irrelevant: bound to 1, to 'zz', or unbound
    let mut seen = BTreeSet::new();
    for name in idents.iter().chain(var_names.iter()) {
        if rp.contains(name) || !seen.insert(name.clone()) {
            continue;
        }
        if ["true", "false", "null", "in", "match", "case", "_"].contains(&name.as_str()) {
            continue;
        }
        rep.count("unreported_names_perturbed");
        let mut outs = Vec::new();
        for alt in [Some(CelValue::from_int(1)), Some("zz".into()), Some(CelValue::from_list(vec![7.into(), 8.into()])), None] {
            let mut b: Vec<(String, CelValue)> = binds.iter().filter(|(k, _)| k != name).cloned().collect();
            if let Some(v) = alt {
                b.push((name.clone(), v));
            }
            outs.push(mon::run_prog(prog, &b));
            rep.eval();
        }
        if outs.iter().any(|o| o.canon() != outs[0].canon()) {
            rep.viol(
                &format!("relevance|{}|unreported-name-matters", kind),
                &format!("{}: `{}` is not reported (reported: {:?}) but binding it changes the result: {:?}", mon::clip(src, 300), name, rp,
                    outs.iter().map(|o| mon::clip(&o.show(), 60)).collect::<Vec<_>>()),
                json!({"source": src, "name": name, "reported": rp}),
            );
        }
    }
}

pub fn run(ctx: &mut Ctx) {
    // ---- hand-written programs: every syntactic position named in the statement ------------------
    ctx.stage("templates", TEMPLATES.len() as u64, false, |idx, _rng, rep| {
        let (src, free) = TEMPLATES[idx as usize];
        let free: Vec<String> = free.iter().map(|s| s.to_string()).collect();
        let idents = idents_of(src);
        if let Some(prog) = check_coverage(rep, "template", src, &free, &idents) {
            let binds: Vec<(String, CelValue)> = free.iter().map(|n| (n.clone(), CelValue::from_int(3))).collect();
            check_relevance(rep, "template", src, &prog, &binds, &free, &idents);
            check_filter(rep, src, &prog, &free[..free.len().min(1)]);
        }
        rep.distinct(src, true);
        rep.sample(|| json!({"stage":"templates","source":src,"variables_read":free}));
    });

    // ---- generated programs --------------------------------------------------------------------------
    let n = ctx.n(120_000, 1_500_000);
    ctx.stage("generated", n, true, |_idx, rng, rep| {
        let nv = 1 + rng.below(6);
        let vars = gen::random_vars(rng, nv);
        let mut cfg = GenCfg::basic(vars.clone());
        cfg.ill_typed_pct = 6;
        // loop variables that shadow outer variables, and names that collide with built-ins
        cfg.loop_names = vec!["x".into(), "v".into(), vars[0].name.clone(), "size".into()];
        let ty = gen::random_ty(rng, 1);
        let depth = 1 + rng.below(4) as u32;
        let e = Gen::new(rng, cfg).expr(&ty, depth);
        let ws = *rng.pick(&[Ws::Pretty, Ws::Tight]);
        let src = gen::render(&e, ws, Parens::Minimal, None).text;
        let mut free = Vec::new();
        let mut idents = Vec::new();
        gen::free_vars(&e, &mut Vec::new(), &mut free, &mut idents);
        // match type patterns `list` / `object` are compiled as comparisons with those names
        idents.extend(idents_of(&src));
        let prog = match check_coverage(rep, "generated", &src, &free, &idents) {
            Some(p) => p,
            None => return,
        };
        let binds = gen::random_binds(rng, &vars, true);
        let var_names: Vec<String> = vars.iter().map(|v| v.name.clone()).collect();
        if rng.chance(1, 3) {
            check_relevance(rep, "generated", &src, &prog, &binds, &var_names, &idents);
        }
        if rng.chance(1, 4) {
            let k = rng.below(var_names.len() + 1);
            check_filter(rep, &src, &prog, &var_names[..k]);
        }
        rep.distinct(&src, !free.is_empty() && e.size() >= 3);
        rep.sample(|| json!({"stage":"generated","source":mon::clip(&src, 200),"variables_read":free,"reported":reported(&prog)}));
    });
}

#[allow(dead_code)]
fn _unused(_: &mut Rng, _: Ty, _: VarDecl) {}
