//! C13 - literals denote exactly the value they spell; out-of-range / malformed ones are rejected
//! with a syntax error. Oracle: an independent speller (value -> random supported spelling).

use rscel::{CelError, CelValue};
use serde_json::json;

use crate::mon::{self, canon, Ctx, Out, Rep};
use crate::rng::Rng;
use crate::vals;

fn expect_value(rep: &mut Rep, kind: &str, form: &str, src: &str, want: &CelValue) {
    let out = mon::run1(src, &[]);
    rep.eval();
    rep.count(&format!("form/{}/{}", kind, form));
    let ok = matches!(&out, Out::Val(v) if canon(v) == canon(want));
    if !ok {
        let class = match &out {
            Out::Val(_) => "wrong-value",
            Out::Err(_) => "rejected",
            Out::Panic(..) => "panic",
        };
        rep.viol(
            &format!("literal|{}|{}|{}", kind, form, class),
            &format!("literal {} should evaluate to {}, got {}", mon::clip(src, 200), mon::clip(&canon(want), 200), out.show()),
            json!({"source": src, "expected": canon(want)}),
        );
    }
}

fn expect_syntax_error(rep: &mut Rep, kind: &str, src: &str) {
    rep.eval();
    rep.count(&format!("negative/{}", kind));
    let r = mon::compile(src);
    let ok = matches!(&r, Err(Out::Err(CelError::Syntax(_))));
    if !ok {
        let got = match r {
            Ok(p) => format!("accepted; evaluates to {}", mon::run_prog(&p, &[]).show()),
            Err(o) => o.show(),
        };
        rep.viol(
            &format!("negative|{}", kind),
            &format!("malformed literal {} should be rejected with a syntax error: {}", src, got),
            json!({"source": src}),
        );
    }
}

// ---- spellers -------------------------------------------------------------------------------

fn spell_int(rng: &mut Rng, i: i64) -> (String, &'static str) {
    let mag = (i as i128).unsigned_abs();
    let neg = i < 0;
    // every spelling of the hexadecimal form: prefix 0x / 0X, digits in either or mixed case, leading zeros
    let mixed = |m: u128, rng: &mut Rng| -> String { format!("{:x}", m).chars().map(|c| if rng.chance(1, 2) { c.to_ascii_uppercase() } else { c }).collect() };
    let (body, form) = match rng.below(9) {
        0..=2 => (format!("{}", mag), "dec"),
        3 => (format!("0x{:x}", mag), "hex-lower"),
        4 => (format!("0x{:X}", mag), "hex-upper"),
        5 => (format!("0X{:x}", mag), "hex-X-lower"),
        6 => (format!("0X{:X}", mag), "hex-X-upper"),
        7 => (format!("0{}{}", rng.pick(&['x', 'X']), mixed(mag, rng)), "hex-mixed"),
        _ => (format!("0{}{}{:x}", rng.pick(&['x', 'X']), "0".repeat(1 + rng.below(4)), mag), "hex-padded"),
    };
    (if neg { format!("-{}", body) } else { body }, form)
}

fn spell_uint(rng: &mut Rng, u: u64) -> (String, &'static str) {
    match rng.below(8) {
        0 | 1 => (format!("{}u", u), "dec-u"),
        2 => (format!("{}U", u), "dec-U"),
        3 => (format!("0x{:x}u", u), "hex-u"),
        4 => (format!("0X{:x}u", u), "hex-X-u"),
        5 => (format!("0x{:X}U", u), "hex-upper-U"),
        6 => (format!("0X{:X}U", u), "hex-X-upper-U"),
        _ => (format!("0{}00{:x}{}", rng.pick(&['x', 'X']), u, rng.pick(&['u', 'U'])), "hex-padded-u"),
    }
}

fn spell_double(rng: &mut Rng, f: f64) -> (String, &'static str) {
    let a = f.abs();
    let (body, form): (String, &'static str) = match rng.below(6) {
        0 => {
            let mut s = format!("{:?}", a);
            if !s.contains('.') && !s.contains('e') {
                s.push_str(".0");
            }
            (s, "shortest")
        }
        1 => (format!("{:.16e}", a), "17-digits-exp"),
        2 => (format!("{:e}", a).replace('e', "E"), "upper-E"),
        3 => {
            // explicit exponent sign
            let s = format!("{:e}", a);
            let (m, e) = s.split_once('e').unwrap();
            let e2 = if e.starts_with('-') { e.to_string() } else { format!("+{}", e) };
            (format!("{}e{}", m, e2), "signed-exp")
        }
        4 => {
            // positional with many digits (only for moderate magnitudes)
            if a != 0.0 && (a < 1e-5 || a > 1e15) {
                (format!("{:e}", a), "exp")
            } else {
                (format!("{:.25}", a), "positional-25")
            }
        }
        _ => {
            // leading-dot form for values below one
            let s = format!("{:.30}", a);
            if a < 1.0 && s.starts_with("0.") {
                (s[1..].to_string(), "leading-dot")
            } else {
                (format!("{:?}", a).replace("e", "e"), "shortest2")
            }
        }
    };
    let mut body = body;
    if !body.contains('.') && !body.contains('e') && !body.contains('E') {
        body.push_str(".0");
    }
    (if f.is_sign_negative() { format!("-{}", body) } else { body }, form)
}

fn spell_char(rng: &mut Rng, c: char, quote: char, o: &mut String) {
    let cp = c as u32;
    let simple: Option<&str> = match c {
        '\u{07}' => Some("\\a"),
        '\u{08}' => Some("\\b"),
        '\u{0c}' => Some("\\f"),
        '\n' => Some("\\n"),
        '\r' => Some("\\r"),
        '\t' => Some("\\t"),
        '\u{0b}' => Some("\\v"),
        '\\' => Some("\\\\"),
        '\'' => Some("\\'"),
        '"' => Some("\\\""),
        _ => None,
    };
    let must_escape = c == quote || c == '\\';
    loop {
        match rng.below(7) {
            0 | 1 if !must_escape => {
                o.push(c);
                return;
            }
            2 => {
                if let Some(s) = simple {
                    o.push_str(s);
                    return;
                }
            }
            3 if cp <= 0xff => {
                o.push_str(&if rng.chance(1, 2) { format!("\\x{:02x}", cp) } else { format!("\\X{:02X}", cp) });
                return;
            }
            4 if cp <= 0xffff => {
                o.push_str(&if rng.chance(1, 2) { format!("\\u{:04x}", cp) } else { format!("\\u{:04X}", cp) });
                return;
            }
            5 => {
                o.push_str(&format!("\\U{:08x}", cp));
                return;
            }
            6 if cp <= 0o377 => {
                o.push_str(&format!("\\{:03o}", cp));
                return;
            }
            _ => {}
        }
    }
}

fn spell_str(rng: &mut Rng, s: &str) -> (String, &'static str) {
    let quote = if rng.chance(1, 2) { '\'' } else { '"' };
    match rng.below(6) {
        0 if !s.contains(quote) => {
            // raw string: nothing is an escape - a backslash is a backslash wherever it stands, also right before the closing quote
            (format!("r{}{}{}", quote, s, quote), if s.contains('\\') { "raw-with-backslash" } else { "raw" })
        }
        1 => {
            // f-string without interpolation
            let mut o = String::new();
            o.push('f');
            o.push(quote);
            for c in s.chars() {
                match c {
                    '{' => o.push_str("{{"),
                    '}' => o.push_str("}}"),
                    c => spell_char(rng, c, quote, &mut o),
                }
            }
            o.push(quote);
            (o, "f-prefixed")
        }
        _ => {
            let mut o = String::new();
            o.push(quote);
            for c in s.chars() {
                spell_char(rng, c, quote, &mut o);
            }
            o.push(quote);
            (o, "quoted")
        }
    }
}

fn spell_byte_string(rng: &mut Rng, b: &[u8]) -> (String, &'static str) {
    let quote = if rng.chance(1, 2) { '\'' } else { '"' };
    let mut o = String::new();
    o.push('b');
    o.push(quote);
    let mut i = 0;
    while i < b.len() {
        let x = b[i];
        // a valid multi-byte UTF-8 sequence may be written as the character itself
        if x >= 0x80 && rng.chance(1, 3) {
            let mut taken = false;
            for len in 2..=4 {
                if i + len <= b.len() {
                    if let Ok(s) = std::str::from_utf8(&b[i..i + len]) {
                        if s.chars().count() == 1 {
                            o.push_str(s);
                            i += len;
                            taken = true;
                            break;
                        }
                    }
                }
            }
            if taken {
                continue;
            }
        }
        let printable = (0x20..0x7f).contains(&x) && x as char != quote && x != b'\\';
        match rng.below(5) {
            0 | 1 if printable => o.push(x as char),
            2 => o.push_str(&format!("\\{:03o}", x)),
            3 => {
                let simple = match x {
                    0x07 => Some("\\a"),
                    0x08 => Some("\\b"),
                    0x0c => Some("\\f"),
                    b'\n' => Some("\\n"),
                    b'\r' => Some("\\r"),
                    b'\t' => Some("\\t"),
                    0x0b => Some("\\v"),
                    b'\\' => Some("\\\\"),
                    b'\'' => Some("\\'"),
                    b'"' => Some("\\\""),
                    _ => None,
                };
                match simple {
                    Some(s) => o.push_str(s),
                    None => o.push_str(&format!("\\x{:02X}", x)),
                }
            }
            _ => o.push_str(&format!("\\x{:02x}", x)),
        }
        i += 1;
    }
    o.push(quote);
    (o, "bytes")
}

fn random_scalar(rng: &mut Rng) -> char {
    loop {
        let cp = match rng.below(8) {
            0 | 1 | 2 => rng.below(0x80) as u32,
            3 => rng.below(0x100) as u32,
            4 => rng.below(0x800) as u32,
            5 => rng.below(0x10000) as u32,
            6 => 0x10000 + rng.below(0x100000) as u32,
            _ => *rng.pick(&[0u32, 0x7f, 0x80, 0xff, 0x100, 0x7ff, 0x800, 0xd7ff, 0xe000, 0xfffd, 0xffff, 0x10000, 0x10ffff, 0x27, 0x22, 0x5c, 0x7b, 0x7d]),
        };
        if let Some(c) = char::from_u32(cp) {
            return c;
        }
    }
}

pub fn run(ctx: &mut Ctx) {
    // ---- pool values in every spelling ------------------------------------------------------
    let ints = vals::int_pool();
    let uints = vals::uint_pool();
    let dbls: Vec<f64> = vals::double_pool().into_iter().filter(|f| f.is_finite()).collect();
    let strs = vals::string_pool();
    let bytes = vals::bytes_pool();
    let npool = (ints.len() + uints.len() + dbls.len() + strs.len() + bytes.len()) as u64;
    ctx.stage("pool", npool * 8, true, |idx, rng, rep| {
        let mut k = (idx % npool) as usize;
        if k < ints.len() {
            let i = ints[k];
            let (s, form) = spell_int(rng, i);
            if i == i64::MIN {
                // the magnitude itself is not an int: the exact value or a rejection, nothing else
                let out = mon::run1(&s, &[]);
                rep.eval();
                let ok = match &out {
                    Out::Val(v) => canon(v) == canon(&i.into()),
                    Out::Err(_) => true,
                    Out::Panic(..) => false,
                };
                if !ok {
                    rep.viol("literal|int-min", &format!("{} gave {}", s, out.show()), json!({"source": s}));
                }
            } else {
                expect_value(rep, "int", form, &s, &i.into());
            }
            return;
        }
        k -= ints.len();
        if k < uints.len() {
            let (s, form) = spell_uint(rng, uints[k]);
            expect_value(rep, "uint", form, &s, &uints[k].into());
            return;
        }
        k -= uints.len();
        if k < dbls.len() {
            let (s, form) = spell_double(rng, dbls[k]);
            let want: f64 = s.parse().expect("host parses the spelling");
            expect_value(rep, "double", form, &s, &want.into());
            if form == "shortest" || form == "17-digits-exp" {
                // these spellings round-trip: the value is the original, bit for bit
                expect_value(rep, "double", "roundtrip", &s, &dbls[k].into());
            }
            return;
        }
        k -= dbls.len();
        if k < strs.len() {
            let (s, form) = spell_str(rng, &strs[k]);
            expect_value(rep, "string", form, &s, &strs[k].as_str().into());
            return;
        }
        k -= strs.len();
        let (s, form) = spell_byte_string(rng, &bytes[k]);
        expect_value(rep, "bytes", form, &s, &CelValue::from_bytes(bytes[k].clone()));
    });

    for (src, want) in [("true", CelValue::from_bool(true)), ("false", false.into()), ("null", CelValue::from_null())] {
        expect_value(&mut ctx.rep, "keyword", "plain", src, &want);
    }

    // ---- random values ------------------------------------------------------------------------
    let n = ctx.n(200_000, 3_000_000);
    ctx.stage("random", n, true, |_idx, rng, rep| {
        let kind = rng.below(5);
        let src;
        match kind {
            0 => {
                let i = if rng.chance(1, 4) { rng.range(-1000, 1000) } else { rng.next() as i64 };
                if i == i64::MIN {
                    return;
                }
                let (s, form) = spell_int(rng, i);
                expect_value(rep, "int", form, &s, &i.into());
                src = s;
            }
            1 => {
                let u = if rng.chance(1, 4) { rng.below(1000) as u64 } else { rng.next() };
                let (s, form) = spell_uint(rng, u);
                expect_value(rep, "uint", form, &s, &u.into());
                src = s;
            }
            2 if rng.chance(1, 2) => {
                // spelling-driven: a random decimal digit string (any number of digits before and after the
                // point, optional exponent); the value is the correctly rounded reading (the host's parser)
                let ni = rng.below(20);
                let nf = if ni == 0 { 1 + rng.below(22) } else { rng.below(22) };
                let mut s = String::new();
                for k in 0..ni {
                    s.push(char::from(b'0' + if k == 0 && ni > 1 { 1 + rng.below(9) as u8 } else { rng.below(10) as u8 }));
                }
                s.push('.');
                for _ in 0..nf {
                    s.push(char::from(b'0' + rng.below(10) as u8));
                }
                if nf == 0 && rng.chance(1, 2) {
                    s.push('0');
                }
                let form = if !s.ends_with('.') && rng.chance(1, 4) {
                    s.push_str(&format!("{}{}{}", rng.pick(&["e", "E"]), rng.pick(&["", "+", "-"]), rng.below(30)));
                    "digits-exp"
                } else if ni + nf >= 16 && s.len() <= 19 {
                    "digits-16-to-19-chars"
                } else {
                    "digits-plain"
                };
                let want: f64 = s.parse().expect("host parses the spelling");
                if want.is_finite() {
                    expect_value(rep, "double", form, &s, &want.into());
                }
                src = s;
            }
            2 => {
                // value-driven: random bit patterns, half of them pulled into the magnitudes people write
                let mut f = rng.f64_bits();
                if !f.is_finite() {
                    f = 1.5;
                }
                if rng.chance(1, 2) {
                    let m = (rng.next() >> 11) as f64; // 53 random bits
                    f = m / 10f64.powi(rng.below(20) as i32);
                }
                let (s, form) = spell_double(rng, f);
                let want: f64 = s.parse().expect("host parses the spelling");
                expect_value(rep, "double", form, &s, &want.into());
                if form == "shortest" || form == "17-digits-exp" {
                    expect_value(rep, "double", "roundtrip", &s, &f.into());
                }
                src = s;
            }
            3 => {
                let len = rng.below(41);
                let v: String = (0..len).map(|_| random_scalar(rng)).collect();
                let (s, form) = spell_str(rng, &v);
                expect_value(rep, "string", form, &s, &v.as_str().into());
                src = s;
            }
            _ => {
                let len = rng.below(41);
                let v: Vec<u8> = (0..len).map(|_| if rng.chance(1, 5) { *rng.pick(&[0u8, 0xff, 0x80, 0x7f, 0xc3, 0xa9, 0x27, 0x22, 0x5c]) } else { rng.next() as u8 }).collect();
                let (s, form) = spell_byte_string(rng, &v);
                expect_value(rep, "bytes", form, &s, &CelValue::from_bytes(v));
                src = s;
            }
        }
        rep.distinct(&src, true);
        rep.sample(|| json!({"stage":"random","literal":mon::clip(&src, 160)}));
    });

    // ---- malformed / out-of-range literals ----------------------------------------------------
    let nneg = ctx.n(40_000, 400_000);
    ctx.stage("negative", nneg, true, |_idx, rng, rep| {
        let q = if rng.chance(1, 2) { "'" } else { "\"" };
        let pre = vals::random_string(rng, 3).replace(['\'', '"', '\\', '{', '}', '\n'], "x");
        let post = vals::random_string(rng, 3).replace(['\'', '"', '\\', '{', '}', '\n'], "y");
        let (kind, src): (&str, String) = match rng.below(16) {
            0 => ("int-above-max", format!("{}", (i64::MAX as u128) + 1 + rng.below(1000) as u128)),
            1 => ("int-far-above-max", format!("{}{}", 1 + rng.below(9), "0".repeat(19 + rng.below(10)))),
            2 => ("uint-above-max", format!("{}u", (u64::MAX as u128) + 1 + rng.below(1000) as u128)),
            3 => ("hex-int-above-max", format!("0x{:x}", (i64::MAX as u128) + 1 + rng.below(1000) as u128)),
            4 => ("hex-uint-above-max", format!("0x1{:016x}u", rng.next())),
            5 => ("surrogate-u", format!("{q}{pre}\\u{:04x}{post}{q}", 0xd800 + rng.below(0x800))),
            6 => ("surrogate-U", format!("{q}{pre}\\U{:08x}{post}{q}", 0xd800 + rng.below(0x800))),
            7 => ("above-unicode", format!("{q}{pre}\\U{:08x}{post}{q}", 0x110000 + rng.below(0x1000000))),
            8 => {
                let n = *rng.pick(&[2usize, 4, 8]);
                let lead = match n { 2 => "x", 4 => "u", _ => "U" };
                let mut digits: Vec<char> = (0..n).map(|_| *rng.pick(&['0', '1', 'a', 'F'])).collect();
                let p = rng.below(n);
                // any character that is not a hexadecimal digit (quote characters and the backslash excluded:
                // they would end or continue the literal differently)
                digits[p] = loop {
                    let c = match rng.below(4) {
                        0 => *rng.pick(&['+', '-', '_', '.', ' ', 'g', 'G', 'x', 'u', '#', '~', ':', '/', '@', '`', '{', '}']),
                        1 => (0x20u8 + rng.below(0x5f) as u8) as char,
                        2 => *rng.pick(&['é', 'ａ', '１', '٣', '\u{ff10}', '😀']),
                        _ => *rng.pick(&['+', '-']),
                    };
                    if !c.is_ascii_hexdigit() && c != '\'' && c != '"' && c != '\\' {
                        break c;
                    }
                };
                // \x / \X also inside byte literals
                let bprefix = if n == 2 && rng.chance(1, 3) { "b" } else { "" };
                let lead = if n == 2 && rng.chance(1, 4) { "X" } else { lead };
                ("non-hex-digit", format!("{bprefix}{q}{pre}\\{}{}{post}{q}", lead, digits.into_iter().collect::<String>()))
            }
            9 => {
                let n = *rng.pick(&[2usize, 4, 8]);
                let lead = match n { 2 => "x", 4 => "u", _ => "U" };
                let k = rng.below(n);
                ("escape-cut-by-quote", format!("{q}{pre}\\{}{}{q}", lead, "0".repeat(k)))
            }
            10 => {
                let n = *rng.pick(&[2usize, 4, 8]);
                let lead = match n { 2 => "x", 4 => "u", _ => "U" };
                let k = rng.below(n);
                ("escape-cut-by-eof", format!("{q}{pre}\\{}{}", lead, "0".repeat(k)))
            }
            11 => ("octal-too-short", format!("{q}{pre}\\{}{q}", &["1", "12", "0", "7"][rng.below(4)])),
            12 => ("octal-non-octal-digit", format!("{q}{pre}\\{}{post}{q}", ["181", "191", "08a", "1a2", "911", "801"][rng.below(6)])),
            13 => ("bytes-octal-above-377", format!("b{q}{pre}\\{}{post}{q}", &["400", "777", "378", "477"][rng.below(4)])),
            14 => ("unterminated", format!("{q}{pre}{post}")),
            _ => ("bytes-escape-cut", format!("b{q}{pre}\\x{}{q}", &["", "4"][rng.below(2)])),
        };
        // "octal-non-octal-digit": three characters after the backslash, one of them not octal
        expect_syntax_error(rep, kind, &src);
        rep.distinct(&src, true);
        rep.sample(|| json!({"stage":"negative","kind":kind,"literal":src}));
    });
}
