//! C08 - has() and coalesce() distinguish absent data from every other failure.
//! Oracle: path model over the binding configuration + call-log model for coalesce.

use rscel::CelValue;
use serde_json::json;

use crate::mon::{self, canon, Ctx, Out, Rep};
use crate::props::c05::exec_logged;
use crate::rng::Rng;
use crate::vals;

#[derive(Clone, Copy, Debug, PartialEq)]
enum Cfg {
    Present,
    Null,
    LeafMissing,
    /// the map at this level (0 = root value) lacks the next key
    MidMissing(usize),
    RootUnbound,
    /// the value at this level (0 = root) is an int instead of a map
    MidNotMap(usize),
    /// the value at this level (0 = root) is null instead of a map
    MidNull(usize),
}

const LEVEL_KEYS: [[&str; 3]; 4] = [["a", "size", "x1"], ["b", "map", "has"], ["c", "filter", "k"], ["d", "all", "z"]];

/// value bound to the root for a path with these keys under this configuration
fn build(keys: &[&str], cfg: Cfg, leaf: &CelValue) -> Option<CelValue> {
    if cfg == Cfg::RootUnbound {
        return None;
    }
    fn rec(keys: &[&str], level: usize, cfg: Cfg, leaf: &CelValue) -> CelValue {
        if let Cfg::MidNotMap(k) = cfg {
            if k == level {
                return 7.into();
            }
        }
        if let Cfg::MidNull(k) = cfg {
            if k == level && !keys.is_empty() {
                return CelValue::from_null();
            }
        }
        if keys.is_empty() {
            return match cfg {
                Cfg::Null => CelValue::from_null(),
                _ => leaf.clone(),
            };
        }
        let missing_here = match cfg {
            Cfg::MidMissing(k) => k == level,
            Cfg::LeafMissing => keys.len() == 1,
            _ => false,
        };
        let mut m = std::collections::HashMap::new();
        m.insert("other".to_string(), CelValue::from_int(1));
        if !missing_here {
            m.insert(keys[0].to_string(), rec(&keys[1..], level + 1, cfg, leaf));
        }
        CelValue::from_map(m)
    }
    Some(rec(keys, 0, cfg, leaf))
}

fn configs(depth: usize) -> Vec<Cfg> {
    let mut v = vec![Cfg::Present, Cfg::Null, Cfg::RootUnbound];
    if depth >= 1 {
        v.push(Cfg::LeafMissing);
        for k in 0..depth {
            v.push(Cfg::MidNotMap(k));
            v.push(Cfg::MidNull(k));
        }
        for k in 0..depth.saturating_sub(1) {
            v.push(Cfg::MidMissing(k));
        }
    }
    v
}

#[derive(PartialEq, Debug)]
enum HasWant {
    True,
    False,
    /// false or a propagated error, never true
    FalseOrErr,
}

fn has_want(cfg: Cfg) -> HasWant {
    match cfg {
        Cfg::Present | Cfg::Null => HasWant::True,
        Cfg::LeafMissing | Cfg::MidMissing(_) | Cfg::RootUnbound => HasWant::False,
        Cfg::MidNotMap(_) | Cfg::MidNull(_) => HasWant::FalseOrErr,
    }
}

fn path_src(root: &str, keys: &[&str], forms: u32) -> String {
    let mut s = root.to_string();
    for (i, k) in keys.iter().enumerate() {
        if forms & (1 << i) != 0 {
            s.push_str(&format!("['{}']", k));
        } else {
            s.push_str(&format!(".{}", k));
        }
    }
    s
}

/// contexts: (name, template with {} for the has/coalesce expression, loop-var root?)
const CONTEXTS: [(&str, &str); 9] = [
    ("top", "{}"),
    ("operand-and", "{} && true"),
    ("not", "!({})"),
    ("all", "[1].all(it, {})"),
    ("exists", "[1].exists(it, {})"),
    ("map", "[1].map(it, {})[0]"),
    ("filter", "size([1].filter(it, {})) == 1u"),
    ("reduce", "[1].reduce(acc, it, {}, false)"),
    ("nested-macro", "[1].map(it, [2].map(it, {})[0])[0]"),
];

fn ctx_expect(name: &str, b: bool) -> CelValue {
    match name {
        "not" => (!b).into(),
        _ => b.into(),
    }
}

pub fn run(ctx: &mut Ctx) {
    // ---- has(): exhaustive over depth x key choice x form x configuration x context -------------
    // depth 0..4, 3 key choices per level (index into LEVEL_KEYS), forms 2^depth
    let mut cases: Vec<(usize, usize, u32)> = Vec::new();
    for depth in 0..=4usize {
        for kc in 0..3usize {
            for forms in 0..(1u32 << depth) {
                cases.push((depth, kc, forms));
            }
        }
    }
    let ncases = cases.len() as u64;
    ctx.stage("has", ncases, false, |idx, _rng, rep| {
        let (depth, kc, forms) = cases[idx as usize];
        let keys: Vec<&str> = (0..depth).map(|l| LEVEL_KEYS[l][(kc + l) % 3]).collect();
        for leaf in [CelValue::from_int(0), CelValue::from_bool(false), "".into(), vals::mk_map(&[])] {
            for cfg in configs(depth) {
                let val = build(&keys, cfg, &leaf);
                let want = has_want(cfg);
                for (cname, tpl) in CONTEXTS.iter() {
                    // root either an outer variable or (inside macros) the loop variable itself
                    let roots: Vec<(&str, String, Vec<(String, CelValue)>)> = {
                        let mut r = vec![("outer", tpl.to_string(), val.clone().map(|v| vec![("r".to_string(), v)]).unwrap_or_default())];
                        if tpl.contains("it,") && val.is_some() && *cname != "nested-macro" {
                            // the loop variable carries the structure: [r].all(it, has(it.a.b))
                            r.push(("loopvar", tpl.replacen("[1]", "[r]", 1), vec![("r".to_string(), val.clone().unwrap())]));
                        }
                        r
                    };
                    for (rkind, t, binds) in roots {
                        let root = if rkind == "loopvar" { "it" } else { "r" };
                        let p = path_src(root, &keys, forms);
                        let src = t.replace("{}", &format!("has({})", p));
                        let out = mon::run1(&src, &binds);
                        rep.eval();
                        rep.count(&format!("has_cfg/{:?}", cfg).replace(char::is_numeric, "#"));
                        rep.count(&format!("has_ctx/{}", cname));
                        let ok = match (&want, &out) {
                            (_, Out::Panic(..)) => false,
                            (HasWant::True, Out::Val(v)) => canon(v) == canon(&ctx_expect(cname, true)),
                            (HasWant::False, Out::Val(v)) => canon(v) == canon(&ctx_expect(cname, false)),
                            (HasWant::FalseOrErr, Out::Val(v)) => canon(v) == canon(&ctx_expect(cname, false)),
                            (HasWant::FalseOrErr, Out::Err(_)) => true,
                            _ => false,
                        };
                        if !ok {
                            let class = match &out {
                                Out::Panic(..) => "panic",
                                Out::Err(_) => "error",
                                Out::Val(_) => "wrong-answer",
                            };
                            rep.viol(
                                &format!("has|{}|{}|{}|{}", format!("{:?}", cfg).replace(char::is_numeric, "#"), cname, rkind, class),
                                &format!("{} under configuration {:?}: expected has() to be {:?}, got {}", src, cfg, want, out.show()),
                                json!({"source": src, "bindings": mon::binds_json(&binds), "configuration": format!("{:?}", cfg)}),
                            );
                        }
                        // the classification of a path cannot depend on how its fields are spelled: the same path with
                        // plain field names (a.b.c.d) in the same configuration gives the same answer
                        const PLAIN: [&str; 4] = ["a", "b", "c", "d"];
                        if keys.iter().zip(PLAIN.iter()).any(|(k, p)| k != p) {
                            let pkeys = &PLAIN[..keys.len()];
                            let pval = build(pkeys, cfg, &leaf);
                            let pbinds: Vec<(String, CelValue)> = pval.map(|v| vec![("r".to_string(), v)]).unwrap_or_default();
                            let psrc = t.replace("{}", &format!("has({})", path_src(root, pkeys, forms)));
                            let pout = mon::run1(&psrc, &pbinds);
                            rep.eval();
                            rep.count("has_spelling_pairs");
                            if pout.canon_anyerr() != out.canon_anyerr() {
                                rep.viol(
                                    &format!("has-spelling|{}|{}|{}", format!("{:?}", cfg).replace(char::is_numeric, "#"), cname, rkind),
                                    &format!("{} gives {} but the same path with plain field names, {}, gives {} (configuration {:?})", src, out.show(), psrc, pout.show(), cfg),
                                    json!({"source": src, "plain": psrc, "bindings": mon::binds_json(&binds), "configuration": format!("{:?}", cfg)}),
                                );
                            }
                        }
                        rep.distinct(&format!("{}|{:?}|{}", src, cfg, canon(&leaf)), depth >= 1);
                    }
                }
            }
        }
        rep.sample(|| json!({"stage":"has","path":path_src("r", &keys, forms),"configs":configs(depth).len(),"contexts":CONTEXTS.len()}));
    });

    // has() must propagate every other failure
    // (the last five: a field / key of a value that itself failed is that failure, not an absent field)
    let others = ["1 / zero", "[1][5]", "1 + 's'", "int('x')", "boom(9)", "{'a': 1}.a.b.c['d']", "m.a / zero", "[1, 2][m.zz]",
                  "(1 / zero).a", "[1][5].a", "int('x').a.b", "boom(9).a", "(m.a / zero).k.j"];
    ctx.stage("has-other-failures", others.len() as u64 * CONTEXTS.len() as u64, false, |idx, _rng, rep| {
        let e = others[idx as usize % others.len()];
        let (cname, tpl) = CONTEXTS[idx as usize / others.len()];
        let src = tpl.replace("{}", &format!("has({})", e));
        let binds = vec![("m".to_string(), vals::mk_map(&[("a", 1.into())]))];
        let (out, _log) = exec_logged(&src, &binds);
        rep.eval();
        rep.count("has_other_failures");
        // `m.zz` inside the index of the last one is an absent key: has() is false there
        let absent_inside = e.contains("m.zz");
        let intermediate_not_map = e.contains(".a.b.c");
        let ok = match &out {
            Out::Err(_) => !absent_inside,
            Out::Val(v) => (absent_inside || intermediate_not_map) && canon(v) == canon(&ctx_expect(cname, false)),
            Out::Panic(..) => false,
        };
        if !ok {
            rep.viol(
                &format!("has-propagates|{}|{}", cname, e),
                &format!("{}: a failure other than absence must propagate, got {}", src, out.show()),
                json!({"source": src}),
            );
        }
    });

    // ---- has() / coalesce() over names that resolve to stored programs ------------------------------------------
    // A name may denote a program stored in the context; it evaluates to what the program's source evaluates to
    // under the same bindings. has() and coalesce() classify that evaluation exactly as they classify the source
    // written in place: oracle = the same expression with the program's (parenthesised) source inlined.
    const STORED: [(&str, &str); 9] = [
        ("pgood", "10"),
        ("pnull", "null"),
        ("pmap", "{'a': {'b': 1, 'n': null}}"),
        ("pvar", "ov"),              // a bound variable
        ("pvarmap", "om"),           // a bound map
        ("pabsent", "unbound_name"), // fails as absent
        ("pabsent2", "om.zz"),       // absent key
        ("pfail", "1 / zero"),       // any other failure
        ("pfail2", "[1][5]"),
    ];
    const USES: [&str; 12] = [
        "has(@)", "has(@.a)", "has(@.a.b)", "has(@.a.zz)", "has(@.a.n)", "coalesce(@, 7)", "coalesce(@.a.b, 7)", "coalesce(@.a.zz, @.a.b, 7)",
        "coalesce(null, @)", "has(@) ? 1 : 2", "[has(@), has(@.a)]", "coalesce(@.a.n, 8)",
    ];
    ctx.stage("stored-programs", (STORED.len() * USES.len() * CONTEXTS.len()) as u64, false, |idx, _rng, rep| {
        let (pname, psrc) = STORED[idx as usize % STORED.len()];
        let usage = USES[(idx as usize / STORED.len()) % USES.len()];
        let (cname, tpl) = CONTEXTS[idx as usize / STORED.len() / USES.len()];
        let by_name = tpl.replace("{}", &usage.replace('@', pname));
        let inlined = tpl.replace("{}", &usage.replace('@', &format!("({})", psrc)));
        let binds: Vec<(String, CelValue)> = vec![
            ("ov".to_string(), 5.into()),
            ("om".to_string(), vals::mk_map(&[("a", vals::mk_map(&[("b", 2.into()), ("n", CelValue::from_null())]))])),
            ("zero".to_string(), 0.into()),
        ];
        let run = |main: &str, with_programs: bool| -> Out {
            let mut c = rscel::CelContext::new();
            if with_programs {
                for (n, s) in STORED.iter() {
                    if c.add_program_str(n, s).is_err() {
                        return Out::Panic("stored program rejected".into(), "harness".into());
                    }
                }
            }
            match mon::catch(|| c.add_program_str("main", main)) {
                Ok(Ok(())) => mon::exec_prog(&mut c, "main", &mon::bind_ctx(&binds)),
                Ok(Err(e)) => Out::Err(e),
                Err((m, l)) => Out::Panic(m, l),
            }
        };
        let got = run(&by_name, true);
        let want = run(&inlined, false);
        rep.eval();
        rep.count("stored_program_uses");
        rep.count(&format!("stored_program/{}", pname));
        if got.canon_anyerr() != want.canon_anyerr() {
            rep.viol(
                &format!("stored-program|{}|{}|{}", pname, usage, cname),
                &format!("`{}` with {} = `{}` stored gives {} but with the source written in place (`{}`) it gives {}", by_name, pname, psrc, got.show(), inlined, want.show()),
                json!({"by_name": by_name, "inlined": inlined, "program": psrc}),
            );
        }
        rep.distinct(&by_name, true);
    });

    // ---- coalesce(): every argument list of length 0..4 over 8 item kinds, plus random longer ----
    let kinds = 8u64;
    let total: u64 = (0..=4u32).map(|l| kinds.pow(l)).sum();
    let nrand = ctx.n(20_000, 200_000);
    ctx.stage("coalesce", total + nrand, true, |idx, rng, rep| {
        let items: Vec<u64> = if idx < total {
            let mut rest = idx;
            let mut len = 0u32;
            while rest >= kinds.pow(len) {
                rest -= kinds.pow(len);
                len += 1;
            }
            (0..len).map(|i| (rest / kinds.pow(i)) % kinds).collect()
        } else {
            let len = 5 + rng.below(3);
            (0..len).map(|_| rng.below(kinds as usize) as u64).collect()
        };
        let mut parts = Vec::new();
        let mut want_log = Vec::new();
        let mut want: Option<Result<CelValue, ()>> = None; // Ok(value) / Err(failure)
        for (i, k) in items.iter().enumerate() {
            let id = (i + 1) as i64;
            let (src, logged, eff): (String, bool, u8) = match k {
                0 => (format!("obs({}, {})", id, id * 10), true, 0), // present
                1 => (format!("obs({}, null)", id), true, 1),        // null
                2 => ("null".to_string(), false, 1),
                3 => ("nobody_binds_this".to_string(), false, 2), // absent
                4 => ("m.zz".to_string(), false, 2),
                5 => (format!("boom({})", id), true, 3), // other failure
                6 => ("1 / zero".to_string(), false, 3),
                _ => ("[1][5]".to_string(), false, 3),
            };
            parts.push(src);
            if want.is_none() {
                if logged {
                    want_log.push(id);
                }
                match eff {
                    0 => want = Some(Ok(CelValue::from_int(id * 10))),
                    3 => want = Some(Err(())),
                    _ => {}
                }
            }
        }
        let want = want.unwrap_or(Ok(CelValue::from_null()));
        let call = format!("coalesce({})", parts.join(", "));
        let (cname, tpl) = if idx < total { CONTEXTS[(idx % 3) as usize * 0] } else { *rng.pick(&CONTEXTS) };
        // only value-preserving contexts make sense for coalesce
        let (cname, tpl) = match cname {
            "top" | "map" | "nested-macro" => (cname, tpl),
            _ => ("top", "{}"),
        };
        for (cn, t) in [(cname, tpl), ("map", "[1].map(it, {})[0]"), ("reduce", "[1].reduce(acc, it, {}, 0)")] {
            let src = t.replace("{}", &call);
            let binds = vec![("m".to_string(), vals::mk_map(&[("a", 1.into())]))];
            let (out, log) = exec_logged(&src, &binds);
            rep.eval();
            rep.count(&format!("coalesce_ctx/{}", cn));
            let ok = match (&want, &out) {
                (_, Out::Panic(..)) => false,
                (Ok(v), Out::Val(o)) => canon(v) == canon(o),
                (Err(()), Out::Err(_)) => true,
                _ => false,
            };
            if !ok {
                rep.viol(
                    &format!("coalesce-result|{}|{}", cn, match &want { Ok(_) => "value", Err(_) => "should-propagate" }),
                    &format!("{}: expected {:?}, got {}", src, want.as_ref().map(canon), out.show()),
                    json!({"source": src, "expected_calls": want_log, "observed_calls": log}),
                );
            }
            if log != want_log {
                rep.viol(
                    &format!("coalesce-order|{}|{}", cn, if log.len() > want_log.len() { "evaluated-after-chosen" } else { "skipped" }),
                    &format!("{}: calls observed {:?}, expected {:?}", src, log, want_log),
                    json!({"source": src, "expected_calls": want_log, "observed_calls": log}),
                );
            }
        }
        rep.distinct(&call, !items.is_empty());
        rep.sample(|| json!({"stage":"coalesce","call":call,"expected_calls":want_log}));
    });

    // ---- coalesce over nested field paths on bound maps of any depth ----------------------------
    let nr = ctx.n(20_000, 200_000);
    ctx.stage("coalesce-paths", nr, true, |_idx, rng, rep| {
        let nargs = 1 + rng.below(4);
        let mut binds: Vec<(String, CelValue)> = Vec::new();
        let mut parts = Vec::new();
        let mut want: Option<CelValue> = None;
        let mut open = false; // an "intermediate not a map" argument was met before a decision
        for i in 0..nargs {
            let depth = 1 + rng.below(4);
            let kc = rng.below(3);
            let keys: Vec<&str> = (0..depth).map(|l| LEVEL_KEYS[l][(kc + l) % 3]).collect();
            let cfgs = configs(depth);
            let cfg = *rng.pick(&cfgs);
            let leaf = CelValue::from_int(100 + i as i64);
            let name = format!("r{}", i);
            if let Some(v) = build(&keys, cfg, &leaf) {
                binds.push((name.clone(), v));
            }
            parts.push(path_src(&name, &keys, rng.next() as u32));
            if want.is_none() && !open {
                match cfg {
                    Cfg::Present => want = Some(leaf),
                    Cfg::MidNotMap(_) | Cfg::MidNull(_) => open = true,
                    _ => {}
                }
            }
        }
        parts.push("'fallback'".to_string());
        let src = format!("coalesce({})", parts.join(", "));
        let out = random_ctx_eval(rng, &src, &binds);
        rep.eval();
        let want = want.unwrap_or("fallback".into());
        let ok = match &out {
            Out::Panic(..) => false,
            Out::Val(v) => open || canon(v) == canon(&want),
            Out::Err(_) => open,
        };
        if !ok {
            rep.viol(
                "coalesce-paths",
                &format!("{}: expected {}, got {}", src, canon(&want), out.show()),
                json!({"source": src, "bindings": mon::binds_json(&binds)}),
            );
        }
        rep.distinct(&format!("{}|{}", src, mon::binds_json(&binds)), true);
    });
}

fn random_ctx_eval(rng: &mut Rng, src: &str, binds: &[(String, CelValue)]) -> Out {
    let t = *rng.pick(&["{}", "[1].map(it, {})[0]", "[1].map(it, [2].map(it, {})[0])[0]"]);
    mon::run1(&t.replace("{}", src), binds)
}
