//! C19 - serialised programs (JSON, bincode) behave exactly like the original.

use std::collections::BTreeSet;

use rscel::{CelValue, Program};
use serde_json::{json, Value};

use crate::gen::{self, Gen, GenCfg, Parens, Ws};
use crate::mon::{self, err_variant, Ctx, Out, Rep};
use crate::rng::Rng;

const CONSTANT_TEMPLATES: &[&str] = &[
    "1 / 0",
    "[1 / 0, 2]",
    "int('x')",
    "1.0 / 0.0",
    "-1.0 / 0.0",
    "0.0 / 0.0",
    "[1.0 / 0.0, -0.0, 5e-324, 1.7976931348623157e308]",
    "9223372036854775807",
    "-9223372036854775807 - 1",
    "18446744073709551615u",
    "b'\\xff\\xfe\\x00'",
    "b''",
    "''",
    "'é😀\\n\\x00'",
    "null",
    "[null, true, false]",
    "{'a': {'b': [1, 2u, 3.5, 'x', b'y', null]}}",
    "int",
    "[int, uint, double, string, bytes, bool, timestamp, duration, type, dyn, null_type]",
    "type([])",
    "type({})",
    "timestamp('2024-02-29T12:34:56.789Z')",
    "timestamp(0)",
    "timestamp(253402300799)",
    "duration('1h2m3s')",
    "duration(1, 500000000)",
    "duration(-5)",
    "[timestamp(1), duration(2)]",
    "x + 1 / 0",
    "x ? 1 / 0 : int('y')",
    "[x].map(v, 1.0 / 0.0)",
    "f'{x}{1.0 / 0.0}'",
    "coalesce(x, 0.0 / 0.0)",
    "x || 1 / 0 == 1",
    "match x { case 1: 1.0 / 0.0, case _: b'\\xff' }",
    "has(x.a) ? x.a : -0.0",
    "[x, 1.0 / 0.0][0]",
    "x.map(k, 0.0 / 0.0)",
];

const KNOWN_VARIANTS: &[&str] = &[
    "Int", "UInt", "Float", "Bool", "String", "Bytes", "List", "Map", "Null", "Ident", "Type", "TimeStamp", "Duration", "ByteCode", "Err",
    "Push", "Pop", "Test", "Dup", "Or", "And", "Not", "Neg", "Add", "Sub", "Mul", "Div", "Mod", "Lt", "Le", "Eq", "Ne", "Ge", "Gt", "In", "Jmp", "JmpCond",
    "MkList", "MkDict", "Index", "Access", "Call", "FmtString",
    "Misc", "Syntax", "Value", "Argument", "InvalidOp", "Runtime", "Binding", "Attribute", "DivideByZero", "Internal", "NaN", "Infinity",
];

fn collect_variants(v: &Value, out: &mut BTreeSet<String>) {
    collect_variants_raw(v, out);
    out.retain(|k| KNOWN_VARIANTS.contains(&k.as_str()));
}

fn collect_variants_raw(v: &Value, out: &mut BTreeSet<String>) {
    match v {
        Value::Object(o) => {
            for (k, x) in o {
                // externally tagged enums: single-key objects whose key starts upper-case
                if k.chars().next().map(|c| c.is_ascii_uppercase()).unwrap_or(false) {
                    out.insert(k.clone());
                }
                collect_variants_raw(x, out);
            }
        }
        Value::Array(a) => a.iter().for_each(|x| collect_variants_raw(x, out)),
        Value::String(s) => {
            if s.chars().next().map(|c| c.is_ascii_uppercase()).unwrap_or(false) && s.len() < 12 && s.chars().all(|c| c.is_ascii_alphabetic()) {
                out.insert(s.clone());
            }
        }
        _ => {}
    }
}

fn outcome_key(o: &Out) -> String {
    match o {
        Out::Val(v) => mon::canon(v),
        Out::Err(e) => format!("ERR:{}", err_variant(e)),
        Out::Panic(m, l) => format!("PANIC:{}@{}", m, l),
    }
}

fn check_program(rep: &mut Rep, rng: &mut Rng, src: &str, vars: &[gen::VarDecl], stage: &str) {
    rep.eval();
    let prog = match mon::compile(src) {
        Ok(p) => p,
        Err(o) => {
            if o.is_panic() {
                rep.viol("compile-panic", &o.show(), json!({"source": src}));
            }
            rep.count("rejected");
            return;
        }
    };
    let mut binding_sets: Vec<Vec<(String, CelValue)>> = vec![vec![]];
    binding_sets.push(gen::random_binds(rng, vars, true));
    binding_sets.push(gen::random_binds(rng, vars, false));
    let originals: Vec<Out> = binding_sets.iter().map(|b| mon::run_prog(&prog, b)).collect();
    let mut orig_params: Vec<String> = prog.params().iter().map(|s| s.to_string()).collect();
    orig_params.sort();

    for fmt in ["json", "bincode"] {
        rep.count(&format!("roundtrips/{}", fmt));
        // serialisation never fails for a program the compiler produced
        let ser: Result<Vec<u8>, String> = match mon::catch(|| {
            if fmt == "json" {
                serde_json::to_vec(&prog).map_err(|e| e.to_string())
            } else {
                bincode::serialize(&prog).map_err(|e| e.to_string())
            }
        }) {
            Ok(r) => r,
            Err((m, l)) => Err(format!("panic: {} at {}", m, l)),
        };
        let bytes = match ser {
            Ok(b) => b,
            Err(e) => {
                rep.viol(&format!("{}|serialize-fails", fmt), &format!("`{}` cannot be serialised: {}", mon::clip(src, 200), e), json!({"source": src, "bytecode": mon::clip(&prog.dumps_bc(), 600)}));
                continue;
            }
        };
        if fmt == "json" {
            if let Ok(v) = serde_json::from_slice::<Value>(&bytes) {
                let mut vs = BTreeSet::new();
                collect_variants(&v, &mut vs);
                for k in vs {
                    rep.count(&format!("variant/{}", k));
                }
            }
        }
        let de: Result<Program, String> = match mon::catch(|| {
            if fmt == "json" {
                serde_json::from_slice::<Program>(&bytes).map_err(|e| e.to_string())
            } else {
                bincode::deserialize::<Program>(&bytes).map_err(|e| e.to_string())
            }
        }) {
            Ok(r) => r,
            Err((m, l)) => Err(format!("panic: {} at {}", m, l)),
        };
        let revived = match de {
            Ok(p) => p,
            Err(e) => {
                let class = if e.contains("recursion limit") { "recursion-limit" } else if e.contains("null") || e.contains("floating") { "non-finite-double" } else if e.contains("variant") { "variant-index" } else { "other" };
                rep.viol(
                    &format!("{}|deserialize-fails|{}", fmt, class),
                    &format!("`{}` serialises but cannot be read back: {}", mon::clip(src, 200), mon::clip(&e, 200)),
                    json!({"source": src, "bytecode": mon::clip(&prog.dumps_bc(), 600), "serialised": if fmt == "json" { mon::clip(&String::from_utf8_lossy(&bytes), 600) } else { format!("{} bytes", bytes.len()) }}),
                );
                continue;
            }
        };
        // same source and parameters
        let mut rp: Vec<String> = revived.params().iter().map(|s| s.to_string()).collect();
        rp.sort();
        if revived.source() != prog.source() || rp != orig_params {
            rep.viol(&format!("{}|details-differ", fmt), &format!("source {:?} -> {:?}, params {:?} -> {:?}", prog.source(), revived.source(), orig_params, rp), json!({"source": src}));
        }
        // same behaviour for every binding
        for (b, o) in binding_sets.iter().zip(originals.iter()) {
            let r = mon::run_prog(&revived, b);
            rep.eval();
            if outcome_key(&r) != outcome_key(o) {
                // documented in cel_value.rs: "The time types will be serialized to milliseconds resolution" -
                // a folded timestamp / duration constant with a sub-millisecond part comes back truncated.
                // Classified on its own (exactly this and nothing else) so that it can be listed as a known finding.
                if let (Out::Val(x), Out::Val(y)) = (o, &r) {
                    if same_up_to_ms(x, y) {
                        rep.viol(
                            "time-constant|sub-millisecond-part-lost",
                            &format!("`{}` under {}: original {} but the revived ({}) program {}", mon::clip(src, 200), mon::binds_json(b), o.show(), fmt, r.show()),
                            json!({"source": src, "bindings": mon::binds_json(b)}),
                        );
                        continue;
                    }
                }
                rep.viol(
                    &format!("{}|behaviour-differs|{}", fmt, match (o, &r) { (Out::Val(_), Out::Val(_)) => "value", (Out::Err(_), Out::Err(_)) => "error-class", _ => "value-vs-error" }),
                    &format!("`{}` under {}: original {} but the revived program {}", mon::clip(src, 200), mon::binds_json(b), o.show(), r.show()),
                    json!({"source": src, "bindings": mon::binds_json(b)}),
                );
            }
        }
        // a second round trip is byte-identical
        let again = if fmt == "json" { serde_json::to_vec(&revived).ok() } else { bincode::serialize(&revived).ok() };
        // (parameter sets are hash sets: compare after a decode for JSON, bytes for bincode are order-dependent too)
        if let Some(a2) = again {
            let same = if fmt == "json" {
                let (x, y): (Option<Value>, Option<Value>) = (serde_json::from_slice(&bytes).ok(), serde_json::from_slice(&a2).ok());
                match (x, y) {
                    (Some(mut x), Some(mut y)) => {
                        sort_params(&mut x);
                        sort_params(&mut y);
                        x == y
                    }
                    _ => false,
                }
            } else {
                a2.len() == bytes.len()
            };
            if !same {
                rep.viol(&format!("{}|second-roundtrip-differs", fmt), &format!("`{}`: serialising the revived program gives a different document", mon::clip(src, 200)), json!({"source": src}));
            }
        }
    }
    let nontrivial = prog.dumps_bc().lines().count() > 1 || !matches!(originals[0], Out::Val(CelValue::Int(_)));
    rep.distinct(src, nontrivial);
    rep.sample(|| json!({"stage": stage, "source": mon::clip(src, 200), "outcome": mon::clip(&originals[0].show(), 100)}));
}

/// equal except that timestamps / durations may differ by less than a millisecond
fn same_up_to_ms(a: &CelValue, b: &CelValue) -> bool {
    match (a, b) {
        (CelValue::TimeStamp(x), CelValue::TimeStamp(y)) => {
            let d = x.signed_duration_since(*y);
            x != y && d < chrono::Duration::milliseconds(1) && d > chrono::Duration::milliseconds(-1)
        }
        (CelValue::Duration(x), CelValue::Duration(y)) => match x.checked_sub(y) {
            Some(d) => x != y && d < chrono::Duration::milliseconds(1) && d > chrono::Duration::milliseconds(-1),
            None => false,
        },
        (CelValue::List(x), CelValue::List(y)) => {
            x.len() == y.len() && x.iter().zip(y.iter()).all(|(p, q)| mon::canon(p) == mon::canon(q) || same_up_to_ms(p, q))
        }
        (CelValue::Map(x), CelValue::Map(y)) => {
            x.len() == y.len() && x.iter().all(|(k, p)| y.get(k).map(|q| mon::canon(p) == mon::canon(q) || same_up_to_ms(p, q)).unwrap_or(false))
        }
        _ => false,
    }
}

fn sort_params(v: &mut Value) {
    if let Some(p) = v.get_mut("details").and_then(|d| d.get_mut("params")).and_then(|p| p.as_array_mut()) {
        p.sort_by_key(|x| x.to_string());
    }
}

pub fn run(ctx: &mut Ctx) {
    ctx.stage("constant-templates", CONSTANT_TEMPLATES.len() as u64, true, |idx, rng, rep| {
        let vars = vec![gen::VarDecl { name: "x".into(), ty: gen::Ty::Int }];
        check_program(rep, rng, CONSTANT_TEMPLATES[idx as usize], &vars, "constant-templates");
    });
    ctx.stage("corpus", crate::corpus::CORPUS.len() as u64, true, |idx, rng, rep| {
        let vars: Vec<gen::VarDecl> = ["a", "b", "c", "d", "e"].iter().map(|n| gen::VarDecl { name: n.to_string(), ty: gen::Ty::Int }).collect();
        check_program(rep, rng, crate::corpus::CORPUS[idx as usize], &vars, "corpus");
    });
    // ---- every pool value (and random values) as a folded constant, alone and inside containers / comparisons ----
    let pool = crate::vals::full_pool();
    let npool = pool.len() as u64;
    let nconst = npool + ctx.n(20_000, 300_000);
    ctx.stage("constant-values", nconst, true, |idx, rng, rep| {
        let v = if idx < npool { pool[idx as usize].clone() } else { crate::vals::random_value(rng, 2) };
        let lit = match crate::vals::spell(&v) {
            Some(l) => l,
            None => {
                rep.count("constant_values_unspellable");
                return;
            }
        };
        rep.count(&format!("constant_values/{}", mon::canon(&v).split(':').next().unwrap_or("?")));
        let vars = vec![gen::VarDecl { name: "x".into(), ty: gen::Ty::Int }];
        for shape in ["@", "[@]", "{'k': @}", "x == @", "[@, x]", "type(@)", "string(@)", "x ? @ : [@]"] {
            let src = shape.replace('@', &lit);
            check_program(rep, rng, &src, &vars, "constant-values");
        }
    });

    // ---- map constants: a revived program holds rebuilt hash maps (new hasher state, new iteration order) ------------
    // Whatever walks a map constant at run time - macros, renderings, comparisons, membership - gives the revived
    // program the same result as the original.
    let nmc = ctx.n(4_000, 60_000);
    ctx.stage("map-constants", nmc, true, |_idx, rng, rep| {
        let nkeys = 2 + rng.below(14);
        let mut keys: Vec<String> = Vec::new();
        while keys.len() < nkeys {
            let k = format!("{}{}", rng.pick(&["k", "a", "zz", "é", "", "key_"]), rng.below(40));
            if !keys.contains(&k) {
                keys.push(k);
            }
        }
        let entries: Vec<String> = keys.iter().enumerate().map(|(i, k)| format!("{}: {}", crate::vals::spell_string(k), match rng.below(4) {
            0 => format!("{}", i),
            1 => format!("'{}'", i),
            2 => format!("[{}, x]", i),  // keeps the map a run-time literal with constant keys
            _ => format!("{}.5", i),
        })).collect();
        let m = format!("{{{}}}", entries.join(", "));
        let src = match rng.below(12) {
            0 => format!("{}.filter(k, x == x)", m),
            1 => format!("{}.filter(k, size(k) > x)", m),
            2 => format!("{}.map(k, k)", m),
            3 => format!("{}.map(k, x == x, k)", m),
            4 => format!("{}.filter(k, x == x)[0]", m),
            5 => format!("f'{{{}.filter(k, x == x)}}'", m.replace('\'', "\"")),
            6 => format!("{}.map(k, k).reduce(acc, k, acc + k, '')", m),
            7 => format!("[x].map(i, {}.filter(k, i == i))[0]", m),
            8 => format!("{} == {}", m, m),
            9 => format!("{}.all(k, size(k) >= x)", m),
            10 => format!("x in {} || {}.exists(k, k == 'zz1')", m, m),
            _ => format!("{}.filter(k, x == x).map(k, k + '!')", m),
        };
        rep.count("map_constant_programs");
        let vars = vec![gen::VarDecl { name: "x".into(), ty: gen::Ty::Int }];
        check_program(rep, rng, &src, &vars, "map-constants");
    });

    // ---- deep and wide programs: whatever the compiler accepts must survive the round trip --------------------
    const DEPTHS: [usize; 20] = [1, 2, 4, 8, 12, 16, 20, 24, 28, 32, 36, 40, 44, 46, 47, 48, 64, 100, 300, 1000];
    let ladders = crate::props::c01::LADDERS;
    ctx.stage("deep-programs", (ladders.len() * DEPTHS.len()) as u64, false, |idx, rng, rep| {
        let (name, f) = ladders[idx as usize % ladders.len()];
        let depth = DEPTHS[idx as usize / ladders.len()];
        let src = f(depth);
        if mon::compile(&src).is_ok() {
            rep.count(&format!("deep_accepted/{}", name));
            rep.count("deep_programs_accepted");
        }
        let vars = vec![gen::VarDecl { name: "x".into(), ty: gen::Ty::Int }];
        check_program(rep, rng, &src, &vars, "deep-programs");
    });

    let n = ctx.n(60_000, 1_000_000);
    ctx.stage("generated", n, true, |_idx, rng, rep| {
        // constant-rich: few variables, wild literal values, so folded constants of every type occur
        let nv = rng.below(3);
        let vars = gen::random_vars(rng, nv);
        let mut cfg = GenCfg::basic(vars.clone());
        cfg.tame = rng.chance(1, 2);
        cfg.ill_typed_pct = 8;
        cfg.unbound = vec!["unb".into()];
        let ty = gen::random_ty(rng, 2);
        let depth = 1 + rng.below(4) as u32;
        let e = Gen::new(rng, cfg).expr(&ty, depth);
        let src = gen::render(&e, Ws::Pretty, Parens::Minimal, None).text;
        check_program(rep, rng, &src, &vars, "generated");
    });
}
