//! C10 - emitted bytecode is well-formed on every path; the VM rejects out-of-range jumps.
//! Monitors: structural walker over every emitted block (all paths, since jumps are forward-only),
//! trace monitor on executed frames (cross-validating the walker's effect table against the VM),
//! and injected instruction sequences through the public deserialisation path.

use rscel::{CelContext, CelValue, Program};
use serde_json::json;

use crate::corpus::CORPUS;
use crate::gen::{self, Gen, GenCfg, Parens, Ty, Ws};
use crate::hookmon;
use crate::mon::{self, Ctx, Out, Rep};
use crate::rng::Rng;
use crate::walker::{self, WalkStats};

fn check_source(rep: &mut Rep, rng: &mut Rng, src: &str, var_names: &[String], stage: &str) {
    rep.eval();
    let prog = match mon::compile(src) {
        Ok(p) => p,
        Err(o) => {
            if o.is_panic() {
                rep.viol("compile-panic", &o.show(), json!({"source": src}));
            }
            rep.count("rejected");
            return;
        }
    };
    let mut st = WalkStats::default();
    let problems = walker::walk_program(&prog, &mut st);
    rep.add("walker_blocks", st.blocks);
    rep.add("walker_instructions", st.instructions);
    rep.add("walker_jumps", st.jumps + st.cond_jumps);
    rep.add("walker_nested_blocks", st.nested_blocks);
    for b in 0..29u8 {
        if st.opcodes_seen & (1 << b) != 0 {
            rep.count(&format!("opcode_emitted/{}", b));
        }
    }
    if let Some(p) = problems.first() {
        let class = if p.contains("outside") {
            "jump-out-of-range"
        } else if p.contains("needs") {
            "stack-underflow"
        } else if p.contains("disagree") {
            "join-height-mismatch"
        } else if p.contains("ends with") {
            "end-height"
        } else {
            "unreachable-end"
        };
        rep.viol(
            &format!("structure|{}", class),
            &format!("`{}`: {}", mon::clip(src, 300), p),
            json!({"source": src, "bytecode": mon::clip(&prog.dumps_bc(), 1500), "problems": problems.iter().take(4).collect::<Vec<_>>()}),
        );
    }
    // executed paths: bindings chosen to flip conditions (truthy / falsy / failing / unbound)
    let mut c = CelContext::new();
    c.add_program("main", prog.clone());
    let nsets = 4;
    for k in 0..nsets {
        let binds: Vec<(String, CelValue)> = var_names
            .iter()
            .filter_map(|n| {
                let v: Option<CelValue> = match (k, rng.below(6)) {
                    (0, _) => Some(true.into()),
                    (1, _) => Some(false.into()),
                    (_, 0) => None, // unbound
                    (_, 1) => Some(0.into()),
                    (_, 2) => Some(rng.range(-3, 3).into()),
                    (_, 3) => Some("s".into()),
                    (_, 4) => Some(CelValue::from_list(vec![1.into(), 0.into()])),
                    _ => Some(rng.chance(1, 2).into()),
                };
                v.map(|v| (n.clone(), v))
            })
            .collect();
        let (out, tr) = hookmon::with_trace(true, || mon::run_in(&mut c, &binds));
        rep.eval();
        rep.add("trace_frames", tr.frames);
        rep.add("trace_steps", tr.steps);
        rep.add("traces_validated_against_impl", 1);
        rep.add("cond_jump_taken", tr.jcond_taken);
        rep.add("cond_jump_fallthrough", tr.jcond_fall);
        if out.is_panic() {
            rep.viol("exec-panic", &out.show(), json!({"source": src, "bindings": mon::binds_json(&binds)}));
        }
        if let Some(p) = tr.problems.first() {
            let class = p.split(' ').take(2).collect::<Vec<_>>().join("-");
            rep.viol(
                &format!("trace|{}", class),
                &format!("`{}`: {}", mon::clip(src, 300), p),
                json!({"source": src, "bindings": mon::binds_json(&binds), "bytecode": mon::clip(&prog.dumps_bc(), 1500)}),
            );
        }
        if tr.open != 0 {
            rep.viol("trace|frames-left-open", &format!("{} frame(s) still open after exec", tr.open), json!({"source": src}));
        }
        if tr.bad_end_heights > 0 && out.is_val() {
            rep.viol(
                "trace|end-height",
                &format!("`{}`: a frame ran off its end with a stack height other than one", mon::clip(src, 300)),
                json!({"source": src, "bindings": mon::binds_json(&binds)}),
            );
        }
    }
    rep.distinct(src, st.jumps + st.cond_jumps >= 1);
    rep.sample(|| json!({"stage": stage, "source": mon::clip(src, 200), "blocks": st.blocks, "instructions": st.instructions, "jumps": st.jumps + st.cond_jumps}));
}

fn program_with(code: &[serde_json::Value]) -> Option<Program> {
    // through the public deserialisation path (what add_serialized_json of the bindings does)
    let template = Program::from_source("1").ok()?;
    let mut j = serde_json::to_value(&template).ok()?;
    j["bytecode"]["inner"] = serde_json::Value::Array(code.to_vec());
    let text = serde_json::to_string(&j).ok()?;
    serde_json::from_str::<Program>(&text).ok()
}

fn random_op(rng: &mut Rng, pc: usize, len: usize) -> serde_json::Value {
    let push = |v: CelValue| json!({"Push": serde_json::to_value(&v).unwrap()});
    match rng.below(30) {
        0..=7 => push(match rng.below(10) {
            0 => 1.into(),
            1 => true.into(),
            2 => "s".into(),
            3 => CelValue::from_ident("x"),
            4 => CelValue::from_list(vec![1.into()]),
            // conditions that are failures: an unbound name, a failure constant, false / zero for the other branch
            5 | 6 => CelValue::from_ident("unbound_name"),
            7 => CelValue::from_err(rscel::CelError::value("injected failure")),
            8 => false.into(),
            _ => CelValue::from_null(),
        }),
        8 => json!("Pop"),
        9 => json!("Test"),
        10 => json!("Dup"),
        11 => json!("Or"),
        12 => json!("And"),
        13 => json!("Not"),
        14 => json!("Neg"),
        15 => json!(if rng.chance(1, 2) { "Add" } else { "Div" }),
        16 => json!("Eq"),
        17 => json!("In"),
        18 => json!("Index"),
        19 => json!("Access"),
        20 => json!({"MkList": rng.below(4)}),
        21 => json!({"MkDict": rng.below(3)}),
        22 => json!({"Call": rng.below(3)}),
        23 => json!({"FmtString": rng.below(3)}),
        24 => json!({"MkList": *rng.pick(&[u32::MAX, 1 << 31, 1000])}),
        25 | 26 => json!({"Jmp": jump_dist(rng, pc, len)}),
        _ => json!({"JmpCond": {"when": if rng.chance(1, 2) { "True" } else { "False" }, "dist": jump_dist(rng, pc, len)}}),
    }
}

fn jump_dist(rng: &mut Rng, pc: usize, len: usize) -> i32 {
    let remaining = (len - pc - 1) as i32;
    match rng.below(8) {
        0..=3 => rng.below(remaining as usize + 1) as i32, // forward, in range (incl. exactly the end)
        4 => remaining + 1 + rng.below(5) as i32,          // past the end
        5 => -(pc as i32) - 2 - rng.below(5) as i32,        // before the start
        6 => i32::MAX,
        _ => i32::MIN,
    }
}

pub fn run(ctx: &mut Ctx) {
    // ---- corpus ------------------------------------------------------------------------------------
    ctx.stage("corpus", CORPUS.len() as u64, false, |idx, rng, rep| {
        let names: Vec<String> = ["a", "b", "c", "d", "e", "l", "m", "x", "name"].iter().map(|s| s.to_string()).collect();
        check_source(rep, rng, CORPUS[idx as usize], &names, "corpus");
    });

    // ---- control-flow heavy generated programs --------------------------------------------------------
    let n = ctx.n(250_000, 3_000_000);
    ctx.stage("generated", n, true, |_idx, rng, rep| {
        let nv = 1 + rng.below(4);
        let mut vars = gen::random_vars(rng, nv);
        for v in vars.iter_mut() {
            if rng.chance(2, 3) {
                v.ty = Ty::Bool;
            }
        }
        let mut cfg = GenCfg::basic(vars.clone());
        cfg.ill_typed_pct = 6;
        cfg.unbound = vec!["unb".into()];
        let depth = 2 + rng.below(5) as u32;
        let e = {
            let mut g = Gen::new(rng, cfg);
            if g.rng.chance(2, 3) {
                g.cond(depth)
            } else {
                let t = gen::random_ty(g.rng, 1);
                g.expr(&t, depth)
            }
        };
        let src = gen::render(&e, Ws::Pretty, Parens::Minimal, None).text;
        let names: Vec<String> = vars.iter().map(|v| v.name.clone()).collect();
        check_source(rep, rng, &src, &names, "generated");
    });

    // ---- injected instruction sequences: the VM's own bounds checks -----------------------------------
    let ni = ctx.n(100_000, 1_000_000);
    ctx.stage("injected", ni, true, |_idx, rng, rep| {
        let len = 1 + rng.below(12);
        let code: Vec<serde_json::Value> = if rng.chance(1, 3) {
            // directed: a condition of every kind (true, false, truthy, falsy, unbound, failure) in front of a conditional
            // jump of every reach, then filler - each (condition, sense, distance) decides alone whether the jump is legal
            let push = |v: CelValue| json!({"Push": serde_json::to_value(&v).unwrap()});
            let cond = match rng.below(9) {
                0 => true.into(),
                1 => false.into(),
                2 => 1.into(),
                3 => 0.into(),
                4 | 5 => CelValue::from_ident("unbound_name"),
                6 => CelValue::from_err(rscel::CelError::value("injected failure")),
                7 => CelValue::from_null(),
                _ => "s".into(),
            };
            let filler = rng.below(4);
            let total = 2 + filler;
            let mut c = vec![push(cond)];
            c.push(json!({"JmpCond": {"when": if rng.chance(1, 2) { "True" } else { "False" }, "dist": jump_dist(rng, 1, total)}}));
            for k in 0..filler {
                c.push(push(CelValue::from_int(40 + k as i64)));
                if k > 0 {
                    c.push(json!("Pop"));
                }
            }
            rep.count("injected_directed_condjump");
            c
        } else {
            (0..len).map(|pc| random_op(rng, pc, len)).collect()
        };
        let shown = serde_json::Value::Array(code.clone()).to_string();
        let prog = match program_with(&code) {
            Some(p) => p,
            None => {
                rep.count("inject_not_deserialisable");
                return;
            }
        };
        let mut c = CelContext::new();
        c.add_program("main", prog);
        let binds = vec![("x".to_string(), CelValue::from_int(1))];
        let (out, tr) = hookmon::with_trace(false, || mon::run_in(&mut c, &binds));
        rep.eval();
        rep.count("injected_programs");
        rep.count(&format!("injected_outcome/{}", out.class().split(':').next().unwrap()));
        if out.is_panic() {
            rep.viol("vm-bounds|panic", &format!("{} panicked: {}", shown, out.show()), json!({"bytecode": shown}));
        }
        for p in &tr.problems {
            if p.contains("outside block") || p.contains("control moved") || p.contains("jump out of range accepted") {
                rep.viol("vm-bounds|fetch-outside", &format!("{}: {}", shown, p), json!({"bytecode": shown}));
            }
        }
        rep.distinct(&shown, true);
        rep.sample(|| json!({"stage":"injected","bytecode":mon::clip(&shown, 200),"outcome":mon::clip(&out.show(), 100)}));
    });
}
