//! C03 - numeric operators are exact or fail; no wrap-around, no profile-dependent result.
//! Oracle: reference model in i128 / host IEEE doubles with the widening table of the statement.

use rscel::{CelContext, CelValue};
use serde_json::json;

use crate::mon::{self, canon, Ctx, Out, Rep};
use crate::rng::Rng;
use crate::vals;

#[derive(Clone, Copy, Debug, PartialEq)]
pub enum N {
    I(i64),
    U(u64),
    F(f64),
    B(bool),
}

impl N {
    pub fn val(self) -> CelValue {
        match self {
            N::I(i) => i.into(),
            N::U(u) => u.into(),
            N::F(f) => f.into(),
            N::B(b) => b.into(),
        }
    }
    pub fn from_val(v: &CelValue) -> Option<N> {
        match v {
            CelValue::Int(i) => Some(N::I(*i)),
            CelValue::UInt(u) => Some(N::U(*u)),
            CelValue::Float(f) => Some(N::F(*f)),
            CelValue::Bool(b) => Some(N::B(*b)),
            _ => None,
        }
    }
    fn ty(self) -> &'static str {
        match self {
            N::I(_) => "int",
            N::U(_) => "uint",
            N::F(_) => "double",
            N::B(_) => "bool",
        }
    }
    fn as_i128(self) -> i128 {
        match self {
            N::I(i) => i as i128,
            N::U(u) => u as i128,
            N::B(b) => b as i128,
            N::F(_) => unreachable!(),
        }
    }
    fn as_f64(self) -> f64 {
        match self {
            N::I(i) => i as f64,
            N::U(u) => u as f64,
            N::B(b) => {
                if b {
                    1.0
                } else {
                    0.0
                }
            }
            N::F(f) => f,
        }
    }
}

#[derive(Debug)]
pub enum Expect {
    /// exactly this value
    Exact(CelValue),
    /// must be an error
    Error,
    /// this value or an error (ambiguous corner), never another value
    ValOrErr(CelValue),
    /// any of these values, or an error
    AnyOfOrErr(Vec<CelValue>),
}

#[derive(Clone, Copy, PartialEq)]
enum RT {
    Int,
    UInt,
}

pub fn model(op: &str, a: N, b: N) -> Expect {
    use N::*;
    // bool with bool: not a numeric combination
    if let (B(_), B(_)) = (a, b) {
        return Expect::Error;
    }
    if matches!(a, F(_)) || matches!(b, F(_)) {
        let (x, y) = (a.as_f64(), b.as_f64());
        return match op {
            "+" => Expect::Exact((x + y).into()),
            "-" => Expect::Exact((x - y).into()),
            "*" => Expect::Exact((x * y).into()),
            "/" => Expect::Exact((x / y).into()),
            // CEL defines no remainder on doubles: an error, or IEEE fmod
            _ => Expect::ValOrErr((x % y).into()),
        };
    }
    // integer result type by the widening table
    let rt = match (a, b) {
        (I(_), _) | (_, I(_)) => RT::Int,
        _ => RT::UInt,
    };
    // int-uint mix where the uint is beyond the int range: exact result or error
    let big_mix = rt == RT::Int
        && (matches!(a, U(u) if u > i64::MAX as u64) || matches!(b, U(u) if u > i64::MAX as u64));
    let (x, y) = (a.as_i128(), b.as_i128());
    let r: Option<i128> = match op {
        "+" => Some(x + y),
        "-" => Some(x - y),
        "*" => match x.checked_mul(y) {
            Some(r) => Some(r),
            None => return Expect::Error, // beyond i128, so beyond every result type
        },
        "/" => {
            if y == 0 {
                None
            } else {
                Some(x / y)
            }
        }
        _ => {
            if y == 0 {
                None
            } else {
                Some(x % y)
            }
        }
    };
    let fits = |r: i128| match rt {
        RT::Int => r >= i64::MIN as i128 && r <= i64::MAX as i128,
        RT::UInt => r >= 0 && r <= u64::MAX as i128,
    };
    let mk = |r: i128| -> CelValue {
        match rt {
            RT::Int => (r as i64).into(),
            RT::UInt => (r as u64).into(),
        }
    };
    match r {
        None => Expect::Error,
        Some(r) => {
            if !fits(r) {
                Expect::Error
            } else if big_mix {
                Expect::ValOrErr(mk(r))
            } else if op == "%" && x == i64::MIN as i128 && y == -1 {
                // mathematically 0; cel-go reports overflow
                Expect::ValOrErr(mk(0))
            } else {
                Expect::Exact(mk(r))
            }
        }
    }
}

pub fn model_neg(a: N) -> Expect {
    match a {
        N::I(i) => match i.checked_neg() {
            Some(r) => Expect::Exact(r.into()),
            None => Expect::Error,
        },
        N::U(_) | N::B(_) => Expect::Error,
        N::F(f) => Expect::Exact((-f).into()),
    }
}

pub fn judge(exp: &Expect, out: &Out) -> Result<(), String> {
    match (exp, out) {
        (_, Out::Panic(m, l)) => Err(format!("panicked: {} at {}", m, l)),
        (Expect::Exact(v), Out::Val(o)) => {
            if canon(v) == canon(o) {
                Ok(())
            } else {
                Err(format!("expected {} got {}", canon(v), canon(o)))
            }
        }
        (Expect::Exact(v), Out::Err(e)) => Err(format!("expected {} got error {}", canon(v), e)),
        (Expect::Error, Out::Val(o)) => Err(format!("expected an error, got {}", canon(o))),
        (Expect::Error, Out::Err(_)) => Ok(()),
        (Expect::ValOrErr(_), Out::Err(_)) => Ok(()),
        (Expect::ValOrErr(v), Out::Val(o)) => {
            if canon(v) == canon(o) {
                Ok(())
            } else {
                Err(format!("expected {} or an error, got {}", canon(v), canon(o)))
            }
        }
        (Expect::AnyOfOrErr(_), Out::Err(_)) => Ok(()),
        (Expect::AnyOfOrErr(vs), Out::Val(o)) => {
            if vs.iter().any(|v| canon(v) == canon(o)) {
                Ok(())
            } else {
                Err(format!("got {}, accepted were {:?}", canon(o), vs.iter().map(canon).collect::<Vec<_>>()))
            }
        }
    }
}

pub fn grid() -> Vec<N> {
    let mut g: Vec<N> = Vec::new();
    g.extend(vals::int_pool().into_iter().map(N::I));
    g.extend(vals::uint_pool().into_iter().map(N::U));
    g.extend(vals::double_pool().into_iter().map(N::F));
    g.push(N::B(true));
    g.push(N::B(false));
    g
}

const OPS: [&str; 5] = ["+", "-", "*", "/", "%"];

fn outcome_class(exp: &Expect, out: &Out) -> &'static str {
    match (exp, out) {
        (_, Out::Panic(..)) => "panic",
        (Expect::Error, Out::Val(_)) => "value-instead-of-error",
        (_, Out::Val(_)) => "wrong-value",
        (_, Out::Err(_)) => "error-instead-of-value",
    }
}

fn check(rep: &mut Rep, form: &str, op: &str, a: N, b: N, src: &str, out: &Out) {
    rep.eval();
    rep.digest(&out.canon_anyerr());
    let exp = model(op, a, b);
    rep.count(&format!("pair/{},{}", a.ty(), b.ty()));
    match out {
        Out::Val(_) => rep.count("outcome/val"),
        Out::Err(_) => rep.count("outcome/err"),
        Out::Panic(..) => rep.count("outcome/panic"),
    }
    if let Err(why) = judge(&exp, out) {
        rep.viol(
            &format!("arith|op={}|types={},{}|{}", op, a.ty(), b.ty(), outcome_class(&exp, out)),
            &format!("{} form: {} with a={} b={}: {}", form, src, canon(&a.val()), canon(&b.val()), why),
            json!({"source": src, "form": form, "a": canon(&a.val()), "b": canon(&b.val())}),
        );
    }
}

fn random_n(rng: &mut Rng, kind: usize) -> N {
    match kind {
        0 => N::I(rng.next() as i64),
        1 => N::U(rng.next()),
        2 => {
            // mix of raw bit patterns and "reasonable" magnitudes
            if rng.chance(1, 2) {
                N::F(rng.f64_bits())
            } else {
                N::F((rng.next() as i64) as f64 / (1u64 << rng.below(64)) as f64)
            }
        }
        3 => {
            // near-boundary ints
            let base = *rng.pick(&[0i64, i64::MAX, i64::MIN, 1 << 31, 1 << 32, 1 << 53, -(1 << 31)]);
            N::I(base.wrapping_add(rng.range(-3, 3)))
        }
        4 => {
            let base = *rng.pick(&[0u64, u64::MAX, 1 << 63, 1 << 32, 1 << 53]);
            N::U(base.wrapping_add(rng.range(-3, 3) as u64))
        }
        _ => N::B(rng.chance(1, 2)),
    }
}

pub fn run(ctx: &mut Ctx) {
    let g = grid();
    let ng = g.len() as u64;

    // compiled once per operator: variable form
    let mut progs: Vec<CelContext> = Vec::new();
    for op in OPS {
        let mut c = CelContext::new();
        c.add_program_str("main", &format!("a {} b", op)).expect("compiles");
        progs.push(c);
    }

    // ---- exhaustive grid, both forms ---------------------------------------------------------
    ctx.stage("grid", ng, false, |idx, _rng, rep| {
        let a = g[idx as usize];
        let sa = vals::spell(&a.val()).unwrap();
        for b in &g {
            let sb = vals::spell(&b.val()).unwrap();
            for (k, op) in OPS.iter().enumerate() {
                let binds = vec![("a".to_string(), a.val()), ("b".to_string(), b.val())];
                let out = mon::run_in(&mut progs[k], &binds);
                check(rep, "variable", op, a, *b, &format!("a {} b", op), &out);
                let src = format!("{} {} {}", sa, op, sb);
                let out = mon::run1(&src, &[]);
                check(rep, "literal", op, a, *b, &src, &out);
                // half-literal forms: the compiler sees one constant operand
                let src = format!("{} {} b", sa, op);
                let out = mon::run1(&src, &binds);
                check(rep, "lit-var", op, a, *b, &src, &out);
            }
            rep.distinct(&format!("{}|{}", sa, sb), true);
        }
        // unary minus, both forms; a run of n signs is n negations, each of which must succeed
        for n in 1..=4usize {
            let mut exp = Expect::Exact(a.val());
            let mut cur = Some(a);
            for _ in 0..n {
                exp = match cur {
                    Some(c) => model_neg(c),
                    None => Expect::Error,
                };
                cur = match &exp {
                    Expect::Exact(CelValue::Int(i)) => Some(N::I(*i)),
                    Expect::Exact(CelValue::Float(f)) => Some(N::F(*f)),
                    _ => None,
                };
            }
            let run: String = "-".repeat(n);
            let spaced: String = "- ".repeat(n);
            let nested = format!("{}{}{}", "-(".repeat(n), "a", ")".repeat(n));
            for (form, src, binds) in [
                ("variable", format!("{}a", run), vec![("a".to_string(), a.val())]),
                ("literal", format!("{}{}", run, sa), vec![]),
                ("variable-spaced", format!("{}a", spaced), vec![("a".to_string(), a.val())]),
                ("variable-nested", nested, vec![("a".to_string(), a.val())]),
                ("literal-in-list", format!("[{}{}][0]", run, sa), vec![]),
            ] {
                let out = mon::run1(&src, &binds);
                rep.eval();
                rep.count(&format!("neg_runs/{}", n));
                rep.digest(&out.canon_anyerr());
                if let Err(why) = judge(&exp, &out) {
                    rep.viol(
                        &format!("neg|run={}|type={}|{}", n, a.ty(), outcome_class(&exp, &out)),
                        &format!("{} form: {} with a={}: {}", form, src, canon(&a.val()), why),
                        json!({"source": src, "a": canon(&a.val())}),
                    );
                }
            }
        }
        rep.sample(|| json!({"stage":"grid","a":canon(&a.val()),"partners":g.len(),"ops":OPS}));
    });

    // ---- every numeric value against one representative of every non-numeric type -----------
    let others: Vec<(&str, CelValue)> = vec![
        ("string", "s".into()),
        ("bytes", CelValue::from_bytes(vec![1])),
        ("list", CelValue::from_list(vec![1.into()])),
        ("map", vals::mk_map(&[("a", 1.into())])),
        ("null", CelValue::from_null()),
        ("timestamp", CelValue::from_timestamp(vals::ts(1_700_000_000, 0))),
        ("duration", CelValue::from_duration(chrono::Duration::seconds(5))),
        ("type", CelValue::from_type("int")),
    ];
    ctx.stage("non-numeric", ng, false, |idx, _rng, rep| {
        let a = g[idx as usize];
        if idx == 0 {
            for (tn, o) in &others {
                for n in 1..=4usize {
                    let src = format!("{}a", "-".repeat(n));
                    let out = mon::run1(&src, &[("a".to_string(), o.clone())]);
                    rep.eval();
                    rep.count("neg_non_numeric");
                    if !out.is_err() && *tn != "duration" {
                        rep.viol(&format!("neg|run={}|type={}|value", n, tn), &format!("{} with a={} should be an error, got {}", src, canon(o), out.show()), json!({"source": src, "a": canon(o)}));
                    }
                }
            }
        }
        for (tn, o) in &others {
            for (k, op) in OPS.iter().enumerate() {
                for flip in [false, true] {
                    let (x, y) = if flip { (o.clone(), a.val()) } else { (a.val(), o.clone()) };
                    let binds = vec![("a".to_string(), x.clone()), ("b".to_string(), y.clone())];
                    let out = mon::run_in(&mut progs[k], &binds);
                    rep.eval();
                    rep.digest(&out.canon_anyerr());
                    if !out.is_err() {
                        rep.viol(
                            &format!("non-numeric|op={}|{}x{}|{}", op, a.ty(), tn, if out.is_panic() { "panic" } else { "value" }),
                            &format!("a {} b with a={} b={} should be an error, got {}", op, canon(&x), canon(&y), out.show()),
                            json!({"source": format!("a {} b", op), "a": canon(&x), "b": canon(&y)}),
                        );
                    }
                    if let (Some(sx), Some(sy)) = (vals::spell(&x), vals::spell(&y)) {
                        let src = format!("{} {} {}", sx, op, sy);
                        let out = mon::run1(&src, &[]);
                        rep.eval();
                        rep.digest(&out.canon_anyerr());
                        if !out.is_err() {
                            rep.viol(
                                &format!("non-numeric-lit|op={}|{}x{}", op, a.ty(), tn),
                                &format!("{} should be an error, got {}", src, out.show()),
                                json!({"source": src}),
                            );
                        }
                    }
                }
            }
        }
    });
    // non-numeric x non-numeric: only the documented combinations evaluate
    let no = others.len() as u64;
    ctx.stage("non-numeric-pairs", no * no, false, |idx, _rng, rep| {
        let (ta, a) = &others[(idx / no) as usize];
        let (tb, b) = &others[(idx % no) as usize];
        for (k, op) in OPS.iter().enumerate() {
            let timey = |t: &str| t == "timestamp" || t == "duration";
            let allowed = match *op {
                "+" => (ta == tb && ["string", "bytes", "list"].contains(ta)) || (timey(ta) && timey(tb)),
                "-" => timey(ta) && timey(tb),
                _ => false,
            };
            let binds = vec![("a".to_string(), a.clone()), ("b".to_string(), b.clone())];
            let out = mon::run_in(&mut progs[k], &binds);
            rep.eval();
            rep.digest(&out.canon_anyerr());
            if out.is_panic() || (!allowed && !out.is_err()) {
                rep.viol(
                    &format!("other-types|op={}|{}x{}", op, ta, tb),
                    &format!("a {} b with {} and {} should be an error, got {}", op, ta, tb, out.show()),
                    json!({"source": format!("a {} b", op), "a": canon(a), "b": canon(b)}),
                );
            }
        }
    });

    // ---- chains: a op1 b op2 c groups to the left, whichever operands are literals ---------------------
    // The compiler sees constant neighbours in a chain (`x + 1 + 2`): whatever it does with them, the result is
    // that of the two operations done one after the other, left to right, each exact or failing. Reference: the
    // all-variable chain (nothing to fold) and the model applied step by step.
    let ng3 = g.len() as u64;
    let nchain = ctx.n(60_000, 600_000);
    ctx.stage("chains", nchain, true, |_idx, rng, rep| {
        let pick = |rng: &mut Rng| -> N {
            if rng.chance(2, 3) {
                g[rng.below(ng3 as usize)]
            } else {
                let k = rng.below(6);
                random_n(rng, k)
            }
        };
        // same numeric kind most of the time, so that chains do not die at the first type error
        let a = pick(rng);
        let (b, c) = if rng.chance(3, 4) {
            let same = |rng: &mut Rng, like: N| -> N {
                for _ in 0..40 {
                    let x = pick(rng);
                    if x.ty() == like.ty() {
                        return x;
                    }
                }
                like
            };
            (same(rng, a), same(rng, a))
        } else {
            (pick(rng), pick(rng))
        };
        let (k1, k2) = (rng.below(5), rng.below(5));
        let (op1, op2) = (OPS[k1], OPS[k2]);
        let binds = vec![("a".to_string(), a.val()), ("b".to_string(), b.val()), ("c".to_string(), c.val())];
        // what the chain means: * / % bind tighter than + -, equal levels group to the left; the parenthesised
        // all-variable form is evaluated by the run-time operators one after the other
        let tight = |o: &str| o == "*" || o == "/" || o == "%";
        let left = !(tight(op2) && !tight(op1));
        let grouped = mon::run1(&if left { format!("(a {} b) {} c", op1, op2) } else { format!("a {} (b {} c)", op1, op2) }, &binds);
        let (sa, sb, sc) = (vals::spell(&a.val()).unwrap(), vals::spell(&b.val()).unwrap(), vals::spell(&c.val()).unwrap());
        rep.count(&format!("chain_ops/{}{}", op1, op2));
        for mask in 0..8u32 {
            let x = if mask & 1 != 0 { sa.as_str() } else { "a" };
            let y = if mask & 2 != 0 { sb.as_str() } else { "b" };
            let z = if mask & 4 != 0 { sc.as_str() } else { "c" };
            let src = format!("{} {} {} {} {}", x, op1, y, op2, z);
            let out = mon::run1(&src, &binds);
            rep.eval();
            rep.digest(&out.canon_anyerr());
            if out.canon_anyerr() != grouped.canon_anyerr() {
                rep.viol(
                    &format!("chain|{}{}|literals={:03b}|{}", op1, op2, mask, match (&grouped, &out) {
                        (_, Out::Panic(..)) => "panic",
                        (Out::Val(_), Out::Val(_)) => "wrong-value",
                        (Out::Val(_), _) => "error-instead-of-value",
                        _ => "value-instead-of-error",
                    }),
                    &format!("`{}` with a={} b={} c={} gives {} but the operations done one after the other give {}", src, canon(&a.val()), canon(&b.val()), canon(&c.val()), out.show(), grouped.show()),
                    json!({"source": src, "a": canon(&a.val()), "b": canon(&b.val()), "c": canon(&c.val())}),
                );
            }
        }
        // and the first step against the model (the second step is the single-operation stages' business)
        let first = if left { mon::run1(&format!("a {} b", op1), &binds) } else { Out::Err(rscel::CelError::misc("n/a")) };
        if let Out::Val(v) = &first {
            if let Some(n1) = N::from_val(v) {
                let second = mon::run1(&format!("t {} c", op2), &[("t".to_string(), v.clone()), ("c".to_string(), c.val())]);
                check(rep, "chain-step", op2, n1, c, &format!("t {} c", op2), &second);
                if second.canon_anyerr() != grouped.canon_anyerr() {
                    rep.viol("chain|grouped-differs-from-steps", &format!("(a {} b) {} c = {} but the second step alone gives {}", op1, op2, grouped.show(), second.show()), json!({"a": canon(&a.val()), "b": canon(&b.val()), "c": canon(&c.val())}));
                }
            }
        }
        rep.distinct(&format!("{}{}{}{}{}", sa, op1, sb, op2, sc), true);
        rep.sample(|| json!({"stage":"chains","source":format!("{} {} {} {} {}", sa, op1, sb, op2, sc),"outcome":grouped.show()}));
    });

    // ---- random 64-bit operands ------------------------------------------------------------
    let nrand = ctx.n(200_000, 2_000_000);
    ctx.stage("random", nrand, true, |_idx, rng, rep| {
        let (ka, kb) = (rng.below(6), rng.below(6));
        let a = random_n(rng, ka);
        let b = random_n(rng, kb);
        let k = rng.below(5);
        let op = OPS[k];
        let binds = vec![("a".to_string(), a.val()), ("b".to_string(), b.val())];
        let out = mon::run_in(&mut progs[k], &binds);
        check(rep, "variable", op, a, b, &format!("a {} b", op), &out);
        let (sa, sb) = (vals::spell(&a.val()).unwrap(), vals::spell(&b.val()).unwrap());
        let src = format!("{} {} {}", sa, op, sb);
        let out2 = mon::run1(&src, &[]);
        check(rep, "literal", op, a, b, &src, &out2);
        rep.distinct(&src, true);
        rep.sample(|| json!({"stage":"random","source":src,"outcome":out2.show()}));
    });
}
