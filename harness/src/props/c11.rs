//! C11 - evaluation is a pure, deterministic function of program text and bindings.
//! Oracle: a sequential model of contexts / binding sets; every Exec is compared with a fresh
//! context built from the model; snapshots before/after; repetition; threads.

use std::collections::BTreeMap;

use rscel::{BindContext, CelContext, CelValue};
use serde_json::json;

use crate::gen::{self, Gen, GenCfg, Parens, Ty, VarDecl, Ws};
use crate::mon::{self, canon, Ctx, Out, Rep};
use crate::rng::Rng;

#[derive(Clone, Debug)]
enum Op {
    AddProg(usize, String, String),
    Bind(usize, String, CelValue),
    /// bind_params_from_json_obj: several names at once, given as JSON text
    BindJson(usize, String),
    CloneCtx(usize, usize),
    CloneBind(usize, usize),
    Exec(usize, usize, String),
    Inspect(usize, String),
}

fn show_op(o: &Op) -> String {
    match o {
        Op::AddProg(c, n, s) => format!("ctx{}.add_program({}, `{}`)", c, n, mon::clip(s, 80)),
        Op::Bind(b, v, val) => format!("bind{}.bind_param({}, {})", b, v, mon::clip(&canon(val), 60)),
        Op::BindJson(b, j) => format!("bind{}.bind_params_from_json_obj({})", b, mon::clip(j, 80)),
        Op::CloneCtx(a, b) => format!("ctx{} = ctx{}.clone()", b, a),
        Op::CloneBind(a, b) => format!("bind{} = bind{}.clone()", b, a),
        Op::Exec(c, b, n) => format!("ctx{}.exec({}, bind{})", c, n, b),
        Op::Inspect(c, n) => format!("ctx{}.program_details({})", c, n),
    }
}

struct World<'a> {
    ctxs: Vec<CelContext>,
    binds: Vec<BindContext<'a>>,
    mctx: Vec<BTreeMap<String, String>>,
    mbind: Vec<BTreeMap<String, CelValue>>,
}

fn snapshot(c: &CelContext, names: &BTreeMap<String, String>, b: &BindContext, vars: &BTreeMap<String, CelValue>) -> String {
    let mut s = String::new();
    for n in names.keys() {
        if let Some(p) = c.get_program(n) {
            s.push_str(&serde_json::to_string(p).unwrap_or_else(|_| "<unserialisable>".into()));
        }
        s.push('|');
    }
    for v in vars.keys() {
        s.push_str(&b.get_param(v).map(canon).unwrap_or_else(|| "<missing>".into()));
        s.push('|');
    }
    s
}

fn fresh_exec(names: &BTreeMap<String, String>, vars: &BTreeMap<String, CelValue>, entry: &str) -> Out {
    let mut c = CelContext::new();
    for (n, s) in names {
        if c.add_program_str(n, s).is_err() {
            return Out::Panic("model source does not compile in a fresh context".into(), "harness".into());
        }
    }
    let mut b = BindContext::new();
    for (k, v) in vars {
        b.bind_param(k, v.clone());
    }
    mon::exec_prog(&mut c, entry, &b)
}

/// run a history; returns the first divergence found
fn run_history(rep: &mut Rep, ops: &[Op], nslots: usize, kind: &str) {
    let mut w = World {
        ctxs: (0..nslots).map(|_| CelContext::new()).collect(),
        binds: (0..nslots).map(|_| BindContext::new()).collect(),
        mctx: vec![BTreeMap::new(); nslots],
        mbind: vec![BTreeMap::new(); nslots],
    };
    let mut state_changes = 0;
    for (step, op) in ops.iter().enumerate() {
        match op {
            Op::AddProg(c, n, s) => {
                match mon::catch(|| w.ctxs[*c].add_program_str(n, s)) {
                    Ok(Ok(())) => {
                        w.mctx[*c].insert(n.clone(), s.clone());
                        state_changes += 1;
                    }
                    Ok(Err(_)) => {} // rejected source: nothing stored
                    Err((m, l)) => {
                        rep.viol("history|panic", &format!("{} at {}", m, l), json!({"history": ops.iter().map(show_op).collect::<Vec<_>>()}));
                        return;
                    }
                }
            }
            Op::Bind(b, v, val) => {
                w.binds[*b].bind_param(v, val.clone());
                w.mbind[*b].insert(v.clone(), val.clone());
                state_changes += 1;
            }
            Op::BindJson(b, j) => {
                // model: every key now holds what the same JSON gives in bindings that never held anything
                let val: serde_json::Value = serde_json::from_str(j).expect("harness writes valid JSON");
                let mut fresh = BindContext::new();
                let r1 = fresh.bind_params_from_json_obj(val.clone());
                let r2 = w.binds[*b].bind_params_from_json_obj(val.clone());
                if r1.is_ok() != r2.is_ok() {
                    rep.viol(&format!("history|bind-json|{}", kind), &format!("step {}: {} accepted by fresh bindings: {}, by these: {}", step, show_op(op), r1.is_ok(), r2.is_ok()),
                             json!({"history": ops.iter().map(show_op).collect::<Vec<_>>()}));
                    return;
                }
                if let serde_json::Value::Object(o) = &val {
                    for k in o.keys() {
                        if let Some(v) = fresh.get_param(k) {
                            w.mbind[*b].insert(k.clone(), v.clone());
                        }
                    }
                }
                state_changes += 1;
            }
            Op::CloneCtx(a, b) => {
                w.ctxs[*b] = w.ctxs[*a].clone();
                w.mctx[*b] = w.mctx[*a].clone();
                state_changes += 1;
            }
            Op::CloneBind(a, b) => {
                w.binds[*b] = w.binds[*a].clone();
                w.mbind[*b] = w.mbind[*a].clone();
                state_changes += 1;
            }
            Op::Inspect(c, n) => {
                let got = w.ctxs[*c].program_details(n).map(|d| d.source().map(|s| s.to_string()));
                let want = w.mctx[*c].get(n).cloned();
                rep.eval();
                let ok = match (&got, &want) {
                    (None, None) => true,
                    (Some(Some(g)), Some(wnt)) => g == wnt,
                    _ => false,
                };
                if !ok {
                    rep.viol(
                        &format!("history|inspect|{}", kind),
                        &format!("step {}: {} reports source {:?}, the model holds {:?}", step, show_op(op), got, want),
                        json!({"history": ops.iter().map(show_op).collect::<Vec<_>>()}),
                    );
                    return;
                }
            }
            Op::Exec(c, b, n) => {
                // snapshots of every context and binding set, before and after
                let before: Vec<String> = (0..nslots).map(|i| snapshot(&w.ctxs[i], &w.mctx[i], &w.binds[i], &w.mbind[i])).collect();
                let out = {
                    let (cs, bs) = (&mut w.ctxs, &w.binds);
                    mon::exec_prog(&mut cs[*c], n, &bs[*b])
                };
                let after: Vec<String> = (0..nslots).map(|i| snapshot(&w.ctxs[i], &w.mctx[i], &w.binds[i], &w.mbind[i])).collect();
                rep.eval();
                rep.count("execs_compared_with_fresh_context");
                if before != after {
                    rep.viol(
                        &format!("history|exec-mutates|{}", kind),
                        &format!("step {}: {} changed a stored program or a binding", step, show_op(op)),
                        json!({"history": ops.iter().map(show_op).collect::<Vec<_>>()}),
                    );
                    return;
                }
                let fresh = fresh_exec(&w.mctx[*c], &w.mbind[*b], n);
                if out.canon() != fresh.canon() {
                    rep.viol(
                        &format!("history|differs-from-fresh|{}", kind),
                        &format!("step {}: {} gave {} but a fresh context with the same programs and bindings gives {}", step, show_op(op), out.show(), fresh.show()),
                        json!({"history": ops.iter().map(show_op).collect::<Vec<_>>()}),
                    );
                    return;
                }
            }
        }
    }
    let key: String = ops.iter().map(show_op).collect::<Vec<_>>().join(";");
    rep.distinct(&key, state_changes >= 2 && ops.iter().any(|o| matches!(o, Op::Exec(..))));
}

const SMALL_SOURCES: [&str; 3] = ["x + 1", "q + x", "{'b': x, 'a': 1}.map(k, k)"];

fn small_ops() -> Vec<Op> {
    let mut v = Vec::new();
    for c in 0..2 {
        for n in ["p", "q"] {
            for s in SMALL_SOURCES {
                v.push(Op::AddProg(c, n.to_string(), s.to_string()));
            }
        }
    }
    for b in 0..2 {
        for var in ["x", "q"] {
            for val in [CelValue::from_int(1), CelValue::from_int(5)] {
                v.push(Op::Bind(b, var.to_string(), val));
            }
        }
    }
    for b in 0..2 {
        v.push(Op::BindJson(b, "{\"x\": 7}".to_string()));
        v.push(Op::BindJson(b, "{\"x\": 2, \"q\": 3}".to_string()));
    }
    v.push(Op::CloneCtx(0, 1));
    v.push(Op::CloneCtx(1, 0));
    v.push(Op::CloneBind(0, 1));
    v.push(Op::CloneBind(1, 0));
    for c in 0..2 {
        for b in 0..2 {
            for n in ["p", "q"] {
                v.push(Op::Exec(c, b, n.to_string()));
            }
        }
    }
    v
}

fn deterministic_sources() -> Vec<&'static str> {
    crate::corpus::CORPUS.iter().copied().filter(|s| !s.contains("now()") && !s.contains("timestamp()")).collect()
}

pub fn run(ctx: &mut Ctx) {
    // ---- exhaustive short histories over a small alphabet ------------------------------------------
    let ops = small_ops();
    let n = ops.len() as u64;
    let full4 = !ctx.quick();
    let total = n + n * n + n * n * n + n * n * n * n;
    ctx.stage("short-histories", total, false, |idx, _rng, rep| {
        let (len, mut code) = if idx < n {
            (1, idx)
        } else if idx < n + n * n {
            (2, idx - n)
        } else if idx < n + n * n + n * n * n {
            (3, idx - n - n * n)
        } else {
            (4, idx - n - n * n - n * n * n)
        };
        // quick: every history up to length 3, every 23rd of length 4
        if len == 4 && !full4 && code % 23 != 7 {
            return;
        }
        let mut h = Vec::new();
        for _ in 0..len {
            h.push(ops[(code % n) as usize].clone());
            code /= n;
        }
        // a history that never executes observes nothing: always end with both programs executed
        if !matches!(h.last(), Some(Op::Exec(..))) {
            h.push(Op::Exec(0, 0, "p".into()));
            h.push(Op::Exec(1, 1, "q".into()));
        }
        run_history(rep, &h, 2, "small");
        rep.count(&format!("histories/len{}", len));
        if idx % 9973 == 0 {
            rep.sample(|| json!({"stage":"short-histories","history":h.iter().map(show_op).collect::<Vec<_>>()}));
        }
    });

    // ---- random longer histories over generated programs ---------------------------------------------
    let nr = ctx.n(40_000, 600_000);
    ctx.stage("random-histories", nr, true, |_idx, rng, rep| {
        let vars = vec![
            VarDecl { name: "x".into(), ty: Ty::Int },
            VarDecl { name: "y".into(), ty: rng.pick(&[Ty::Str, Ty::Bool, Ty::Dbl, Ty::List(Box::new(Ty::Int)), Ty::Map(Box::new(Ty::Int))]).clone() },
            VarDecl { name: "z".into(), ty: Ty::Int },
        ];
        let names = ["p", "q", "r"];
        let len = 5 + rng.below(36);
        let mut h: Vec<Op> = Vec::new();
        for _ in 0..len {
            let op = match rng.below(12) {
                0..=2 => {
                    // `q` is the program the others may refer to; it refers to no program itself, so
                    // no reference cycles (exponential work through absorbing constructs) arise
                    let name = rng.pick(&names).to_string();
                    let mut cfg = GenCfg::basic(vars.clone());
                    if name != "q" {
                        cfg.progs = vec![VarDecl { name: "q".into(), ty: Ty::Int }];
                    }
                    cfg.allow_time = false;
                    let t = if name == "q" { Ty::Int } else { gen::random_ty(rng, 1) };
                    let d = 1 + rng.below(3) as u32;
                    let e = Gen::new(rng, cfg).expr(&t, d);
                    Op::AddProg(rng.below(3), name, gen::render(&e, Ws::Pretty, Parens::Minimal, None).text)
                }
                3 => Op::AddProg(rng.below(3), rng.pick(&["p", "r"]).to_string(), rng.pick(&deterministic_sources()).to_string()),
                4 | 5 => {
                    let v = rng.pick(&vars).clone();
                    Op::Bind(rng.below(3), v.name.clone(), gen::value_of(rng, &v.ty, true))
                }
                6 if rng.chance(1, 2) => {
                    // one to three names at once through the JSON overload (ints, strings, bools, lists, maps)
                    let n = 1 + rng.below(3);
                    let mut parts = Vec::new();
                    for _ in 0..n {
                        let v = rng.pick(&vars).clone();
                        let j = match rng.below(6) {
                            0 => format!("{}", rng.range(-9, 9)),
                            1 => format!("\"s{}\"", rng.below(5)),
                            2 => format!("{}", rng.chance(1, 2)),
                            3 => format!("[{}, {}]", rng.below(5), rng.below(5)),
                            4 => format!("{{\"a\": {}}}", rng.below(5)),
                            _ => format!("{}.5", rng.below(9)),
                        };
                        parts.push(format!("\"{}\": {}", v.name, j));
                    }
                    Op::BindJson(rng.below(3), format!("{{{}}}", parts.join(", ")))
                }
                6 => Op::CloneCtx(rng.below(3), rng.below(3)),
                7 => Op::CloneBind(rng.below(3), rng.below(3)),
                8 => Op::Inspect(rng.below(3), rng.pick(&names).to_string()),
                _ => Op::Exec(rng.below(3), rng.below(3), rng.pick(&names).to_string()),
            };
            // cloning a slot onto itself is a no-op in the model and in Rust
            if let Op::CloneCtx(a, b) | Op::CloneBind(a, b) = &op {
                if a == b {
                    continue;
                }
            }
            h.push(op);
        }
        h.push(Op::Exec(rng.below(3), rng.below(3), rng.pick(&names).to_string()));
        if std::env::var("C11_DEBUG").is_ok() {
            for o in &h {
                eprintln!("{}", show_op(o));
            }
        }
        run_history(rep, &h, 3, "random");
        rep.sample(|| json!({"stage":"random-histories","history":h.iter().map(show_op).take(12).collect::<Vec<_>>(),"length":h.len()}));
    });

    // ---- repetition: one result, in this process and (via the driver) across processes ---------------
    let det = deterministic_sources();
    let mut battery = String::new();
    ctx.stage("repetition", det.len() as u64, false, |idx, _rng, rep| {
        let src = det[idx as usize];
        let binds = crate::props::c01::corpus_binds();
        let first = mon::run1(src, &binds);
        for _ in 0..50 {
            // every repetition compiles and binds afresh (fresh hash maps, fresh hasher states)
            let again = mon::run1(src, &binds);
            rep.eval();
            rep.count("repetitions");
            if again.canon() != first.canon() {
                rep.viol(
                    "repetition|differs",
                    &format!("`{}` gave {} and then {} with equal bindings", src, first.show(), again.show()),
                    json!({"source": src}),
                );
                break;
            }
        }
        rep.distinct(src, true);
    });
    // every worker evaluates the whole deterministic corpus once more for the cross-process comparison
    for src in &det {
        battery.push_str(&mon::run1(src, &crate::props::c01::corpus_binds()).canon());
        battery.push(';');
    }
    ctx.rep.note("maporder", &format!("{:016x}", crate::rng::hash_str(&battery)));

    // ---- hash-order: programs whose evaluation walks a hash map -------------------------------------------
    // Every map instance has its own hasher state, so iteration order differs between instances, executions
    // and threads. Nothing observable may depend on it: comparisons of maps holding failing or differing
    // entries, macros over maps whose body fails for some keys, renderings, membership.
    let nh = ctx.n(6_000, 80_000);
    ctx.stage("hash-order", nh, true, |_idx, rng, rep| {
        const KEYS: [&str; 6] = ["a", "b", "c", "dd", "e", "zz"];
        // an entry value as source text: constants, values that differ between the two sides, failures
        fn entry(rng: &mut Rng, side: usize) -> String {
            match rng.below(9) {
                0 | 1 => "1".to_string(),
                2 => format!("{}", side + 1),               // differs between the sides
                3 => "1 / z".to_string(),                   // fails at run time (z = 0)
                4 => "1 / 0".to_string(),                   // fails, foldable
                5 => "unb".to_string(),                     // unbound name
                6 => format!("[{}, one]", side + 1),
                7 => "{'k': one}".to_string(),
                _ => "one".to_string(),                     // bound, equal on both sides
            }
        }
        let nkeys = 2 + rng.below(4);
        let mut keys: Vec<&str> = KEYS.to_vec();
        for i in (1..keys.len()).rev() {
            keys.swap(i, rng.below(i + 1));
        }
        let keys = &keys[..nkeys];
        let side = |rng: &mut Rng, which: usize, drop_one: bool| -> String {
            let mut parts: Vec<String> = keys.iter().map(|k| format!("'{}': {}", k, entry(rng, which))).collect();
            if drop_one && rng.chance(1, 4) {
                parts.pop();
                parts.push(format!("'other': {}", entry(rng, which)));
            }
            format!("{{{}}}", parts.join(", "))
        };
        let m1 = side(rng, 0, false);
        let m2 = side(rng, 1, true);
        let src = match rng.below(14) {
            0 | 1 => format!("{} == {}", m1, m2),
            2 => format!("{} != {}", m1, m2),
            3 => format!("[{}] == [{}]", m1, m2),
            4 => format!("{} in [{}, {}]", m1, m2, m1),
            5 => format!("{{'k': {}}} == {{'k': {}}}", m1, m2),
            6 => format!("vm == {}", m2),
            7 => "vm.map(k, 1 / vm[k])".to_string(),
            8 => "vm.exists(k, 1 / vm[k] > 0)".to_string(),
            9 => "vm.all(k, 1 / vm[k] > 0)".to_string(),
            10 => "vm.filter(k, 1 / vm[k] > 0)".to_string(),
            11 => format!("string({}) + f'{{vm}}'", m1.replace("1 / z", "2").replace("1 / 0", "3").replace("unb", "4")),
            12 => "vm.map(k, k + string(vm[k])).reduce(acc, x, acc + x, '')".to_string(),
            _ => format!("coalesce({} == {}, 'failed')", m1, m2),
        };
        // bound map: some entries zero (the bodies divide by them), rebuilt for every execution
        let vm_entries: Vec<(String, i64)> = keys.iter().map(|k| (k.to_string(), if rng.chance(1, 3) { 0 } else { rng.range(1, 3) })).collect();
        let mk_binds = || -> Vec<(String, CelValue)> {
            let mut m = std::collections::HashMap::new();
            for (k, v) in &vm_entries {
                m.insert(k.clone(), CelValue::from_int(*v));
            }
            vec![("z".to_string(), 0.into()), ("one".to_string(), 1.into()), ("vm".to_string(), CelValue::from_map(m))]
        };
        let first = mon::run1(&src, &mk_binds());
        rep.count(&format!("hash_order_first/{}", first.class().split(':').next().unwrap_or("?")));
        let mut differs: Option<Out> = None;
        // fresh compile + fresh bindings each time
        for _ in 0..12 {
            let again = mon::run1(&src, &mk_binds());
            rep.eval();
            if again.canon() != first.canon() {
                differs = Some(again);
                break;
            }
        }
        // one compiled program, one context, executed repeatedly with rebuilt bindings
        if differs.is_none() {
            if let Ok(p) = mon::compile(&src) {
                let mut c = CelContext::new();
                c.add_program("main", p);
                for _ in 0..12 {
                    let again = mon::run_in(&mut c, &mk_binds());
                    rep.eval();
                    if again.canon() != first.canon() {
                        differs = Some(again);
                        break;
                    }
                }
            }
        }
        rep.count("hash_order_programs");
        if let Some(d) = differs {
            rep.viol(
                "repetition|hash-order",
                &format!("`{}` gave {} and then {} with equal bindings (vm = {:?})", src, first.show(), d.show(), vm_entries),
                json!({"source": src, "vm": format!("{:?}", vm_entries)}),
            );
        }
        rep.distinct(&src, true);
        rep.sample(|| json!({"stage":"hash-order","source":mon::clip(&src, 200),"outcome":mon::clip(&first.show(), 100)}));
    });

    // ---- built-ins hold no memory: every built-in, hostile arguments included, answers the same the first time,
    // the second time, after other calls ran on the same thread, and on a thread that never ran anything ------------
    let names: Vec<&'static str> = crate::corpus::NAMES_FUNCS.iter().chain(crate::corpus::NAMES_TYPES.iter()).copied().collect();
    let pool = crate::vals::full_pool();
    let hostile: Vec<CelValue> = ["(", "[a", "*", "\\", "(?P<", "a{2,1}", "(?i", "%Q", "not/a_zone", "25:61", "99999999999999999999", "1e400", "kgg", "\u{0}", "+", ")", "a|*"]
        .iter()
        .map(|s| CelValue::from_string(s.to_string()))
        .collect();
    let nb = ctx.n(15_000, 300_000);
    ctx.stage("builtin-memory", nb, true, |_idx, rng, rep| {
        let name = *rng.pick(&names);
        let shape = *rng.pick(&["{f}(a)", "r.{f}()", "{f}(a, b)", "r.{f}(a)", "r.{f}(a, b)"]);
        let src = shape.replace("{f}", name);
        // the clock is the one permitted source of variation (a null receiver counts as no receiver: null.now() is now())
        if name == "now" || (name == "timestamp" && shape == "r.{f}()") {
            return;
        }
        let pickv = |rng: &mut Rng| -> CelValue {
            if rng.chance(1, 3) {
                rng.pick(&hostile).clone()
            } else {
                rng.pick(&pool).clone()
            }
        };
        let binds = vec![("r".to_string(), pickv(rng)), ("a".to_string(), pickv(rng)), ("b".to_string(), pickv(rng))];
        // something else that keeps the same built-in busy with ordinary arguments in between
        let other = vec![("r".to_string(), CelValue::from_string("abc".into())), ("a".to_string(), CelValue::from_string("a".into())), ("b".to_string(), CelValue::from_string("b".into()))];
        let first = mon::run1(&src, &binds);
        let second = mon::run1(&src, &binds);
        let _ = mon::run1(&src, &other);
        let third = mon::run1(&src, &binds);
        let (src2, binds2) = (src.clone(), binds.clone());
        let fresh = std::thread::spawn(move || {
            mon::install_panic_hook();
            mon::run1(&src2, &binds2)
        })
        .join()
        .unwrap_or_else(|_| Out::Panic("thread".into(), "join".into()));
        rep.evals += 5;
        rep.count("builtin_memory_cases");
        rep.count(&format!("builtin_memory_first/{}", first.class().split(':').next().unwrap_or("?")));
        for (what, o) in [("second-call", &second), ("after-other-arguments", &third), ("fresh-thread", &fresh)] {
            if o.canon() != first.canon() {
                rep.viol(
                    &format!("repetition|builtin-memory|{}", what),
                    &format!("`{}` under {} gave {} the first time and {} ({})", src, mon::binds_json(&binds), first.show(), o.show(), what),
                    json!({"source": src, "bindings": mon::binds_json(&binds), "which": what}),
                );
                break;
            }
        }
        rep.distinct(&format!("{}|{}", src, mon::binds_json(&binds)), true);
    });

    // ---- threads: 16 threads, cloned contexts, own bindings with equal values --------------------------
    let iters = ctx.n(100, 1000);
    ctx.stage("threads", 1, false, |_idx, _rng, rep| {
        let mut c = CelContext::new();
        let mut names = Vec::new();
        for (i, s) in det.iter().enumerate() {
            if c.add_program_str(&format!("prog{}", i), s).is_ok() {
                names.push(format!("prog{}", i));
            }
        }
        c.add_program_str("other_prog", "a + 40").unwrap();
        let reference: Vec<String> = {
            let b = mon::bind_ctx(&crate::props::c01::corpus_binds());
            names.iter().map(|n| mon::exec_prog(&mut c, n, &b).canon()).collect()
        };
        let mut handles = Vec::new();
        for t in 0..16 {
            let mut cc = c.clone();
            let names = names.clone();
            let reference = reference.clone();
            handles.push(std::thread::spawn(move || {
                mon::install_panic_hook();
                let b = mon::bind_ctx(&crate::props::c01::corpus_binds());
                let mut diffs: Vec<String> = Vec::new();
                let mut execs = 0u64;
                for it in 0..iters {
                    for (k, n) in names.iter().enumerate() {
                        // threads walk the program set from different offsets
                        let k2 = (k + t * 7 + it as usize) % names.len();
                        let _ = n;
                        let got = mon::exec_prog(&mut cc, &names[k2], &b).canon();
                        execs += 1;
                        if got != reference[k2] && diffs.len() < 3 {
                            diffs.push(format!("{}: thread {} got {} expected {}", names[k2], t, got, reference[k2]));
                        }
                    }
                }
                (diffs, execs)
            }));
        }
        for h in handles {
            match h.join() {
                Ok((diffs, execs)) => {
                    rep.add("thread_executions", execs);
                    rep.evals += execs;
                    for d in diffs {
                        rep.viol("threads|differs", &d, json!({"detail": d}));
                    }
                }
                Err(_) => rep.viol("threads|panic", "a worker thread panicked", json!({})),
            }
        }
        // the original context is unchanged by the threads' clones
        let b = mon::bind_ctx(&crate::props::c01::corpus_binds());
        let again: Vec<String> = names.iter().map(|n| mon::exec_prog(&mut c, n, &b).canon()).collect();
        if again != reference {
            rep.viol("threads|original-changed", "the original context gives different results after its clones ran on other threads", json!({}));
        }
        rep.distinct("threads-16", true);
        rep.distinct("threads-16b", true);
        rep.sample(|| json!({"stage":"threads","threads":16,"programs":names.len(),"iterations":iters}));
    });
}

#[allow(dead_code)]
fn _u(_: &mut Rng) {}
