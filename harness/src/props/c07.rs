//! C07 - comprehension macros equal their defining folds; loop variables are lexical.
//! Oracle: differential decomposition - the body is executed on its own (as a separate program,
//! through the public API) once per element, and the defining fold is computed in the harness.

use std::cell::RefCell;
use std::rc::Rc;

use rscel::{BindContext, CelContext, CelError, CelValue};
use serde_json::json;

use crate::gen::{self, call, lit, Gen, GenCfg, Ty, VarDecl, E};
use crate::mon::{self, canon, Ctx, Out, Rep};
use crate::props::c05::truthy;
use crate::rng::Rng;

pub struct Env {
    pub ctx: CelContext,
    pub binds: Vec<(String, CelValue)>,
}

/// execute program `name` of `env` with extra bindings; obs()/boom() log their ids
pub fn exec_env(env: &mut CelContext, name: &str, binds: &[(String, CelValue)]) -> (Out, Vec<i64>) {
    let log: Rc<RefCell<Vec<i64>>> = Rc::new(RefCell::new(Vec::new()));
    let l1 = log.clone();
    let obs = move |_this: CelValue, args: Vec<CelValue>| -> CelValue {
        if let Some(CelValue::Int(id)) = args.first() {
            l1.borrow_mut().push(*id);
        }
        args.get(1).cloned().unwrap_or(CelValue::from_null())
    };
    let l2 = log.clone();
    let boom = move |_this: CelValue, args: Vec<CelValue>| -> CelValue {
        if let Some(CelValue::Int(id)) = args.first() {
            l2.borrow_mut().push(*id);
        }
        CelValue::from_err(CelError::value("boom"))
    };
    let mut b = BindContext::new();
    for (k, v) in binds {
        b.bind_param(k, v.clone());
    }
    b.bind_func("obs", &obs);
    b.bind_func("boom", &boom);
    let before: Vec<String> = binds.iter().map(|(k, _)| format!("{}={}", k, b.get_param(k).map(canon).unwrap_or_default())).collect();
    let out = mon::exec_prog(env, name, &b);
    let after: Vec<String> = binds.iter().map(|(k, _)| format!("{}={}", k, b.get_param(k).map(canon).unwrap_or_default())).collect();
    let out = if before != after {
        Out::Panic("bindings changed by exec".into(), "harness".into())
    } else {
        out
    };
    let l = log.borrow().clone();
    (out, l)
}

fn with(binds: &[(String, CelValue)], name: &str, v: &CelValue) -> Vec<(String, CelValue)> {
    let mut b: Vec<(String, CelValue)> = binds.iter().filter(|(k, _)| k != name).cloned().collect();
    b.push((name.to_string(), v.clone()));
    b
}

#[derive(Debug)]
enum Pred {
    Val(CelValue),
    Fail,
}

fn elem_ty(rng: &mut Rng) -> Ty {
    rng.pick(&[Ty::Int, Ty::Int, Ty::Str, Ty::Dbl, Ty::Bool, Ty::UInt, Ty::Null, Ty::Bytes, Ty::Ts, Ty::Dur,
               Ty::List(Box::new(Ty::Int)), Ty::Map(Box::new(Ty::Int))]).clone()
}

const MACROS: [&str; 7] = ["all", "exists", "exists_one", "filter", "map", "map3", "reduce"];

pub fn run(ctx: &mut Ctx) {
    let n = ctx.n(60_000, 600_000);
    ctx.stage("folds", n, true, |_idx, rng, rep| {
        let mac = *rng.pick(&MACROS);
        let et = elem_ty(rng);
        // lengths: mostly small, regularly beyond the VM's call-depth limit of 32
        let len = match rng.below(10) {
            0 => 0,
            1 => 31 + rng.below(34),
            _ => rng.below(7),
        };
        let acc_ty = rng.pick(&[Ty::Int, Ty::Str, Ty::List(Box::new(Ty::Int)), Ty::Bool]).clone();
        // work budget: an accumulator that can double per element (acc + acc on strings / lists)
        // is only driven over short lists; blow-ups are not what this property is about
        let len = if mac == "reduce" && matches!(acc_ty, Ty::Str | Ty::List(_)) { len.min(10) } else { len };
        let items: Vec<CelValue> = (0..len).map(|_| gen::value_of(rng, &et, true)).collect();
        // loop variable name: sometimes the name of an outer variable (shadowing), sometimes a
        // name that is also a function / macro
        let xname = rng.pick(&["x", "it", "outer1", "size", "v", "map"]).to_string();
        let outer = vec![
            VarDecl { name: "outer1".into(), ty: Ty::Int },
            VarDecl { name: "outer2".into(), ty: rng.pick(&[Ty::Str, Ty::Bool, Ty::Dbl, Ty::List(Box::new(Ty::Int))]).clone() },
        ];
        let mut binds = gen::random_binds(rng, &outer, true);
        // a decoy binding for the loop variable's name: the body must not see it
        if !binds.iter().any(|(k, _)| *k == xname) && rng.chance(1, 2) {
            binds.push((xname.clone(), "decoy".into()));
        }
        let mut cfg = GenCfg::basic(outer.iter().filter(|v| v.name != xname).cloned().collect());
        cfg.vars.push(VarDecl { name: xname.clone(), ty: et.clone() });
        cfg.progs = vec![VarDecl { name: "helper".into(), ty: Ty::Int }];
        cfg.ill_typed_pct = 4;
        cfg.loop_names = vec![xname.clone(), "y".into()]; // inner macros re-use the same name
        cfg.allow_fstr = false;
        let depth = 1 + rng.below(3) as u32;
        let (body1, body2): (E, Option<E>) = {
            if mac == "reduce" {
                cfg.vars.push(VarDecl { name: "acc".into(), ty: acc_ty.clone() });
            }
            let mut g = Gen::new(rng, cfg);
            match mac {
                "all" | "exists" | "exists_one" | "filter" => (g.cond(depth), None),
                "map" => {
                    let t = gen::random_ty(g.rng, 0);
                    (g.expr(&t, depth), None)
                }
                "map3" => {
                    let t = gen::random_ty(g.rng, 0);
                    (g.cond(depth), Some(g.expr(&t, depth)))
                }
                _ => (g.expr(&acc_ty, depth), None),
            }
        };
        // work budget (gen::cost simulates the accumulator): a body that doubles a string / list per element, or a
        // nested reduce over the accumulator, is legitimately unbounded work and says nothing about folds
        {
            let recv = E::Lit(CelValue::from_list(items.clone()));
            let probe = match mac {
                "reduce" => E::Method(Box::new(recv), "reduce".into(), vec![E::Var("acc".into()), E::Var(xname.clone()), body1.clone(), lit(0)]),
                "map3" => E::Method(Box::new(recv), "map".into(), vec![E::Var(xname.clone()), body1.clone(), body2.clone().unwrap_or(lit(0))]),
                m => E::Method(Box::new(recv), m.into(), vec![E::Var(xname.clone()), body1.clone()]),
            };
            if gen::too_heavy(&probe) {
                rep.count("folds_skipped_over_work_budget");
                return;
            }
        }
        // bodies are wrapped in logging calls so every evaluation is visible
        let b1 = call("obs", vec![lit(1), body1]);
        let b2 = body2.map(|b| call("obs", vec![lit(2), b]));
        let seed = gen::value_of(rng, &acc_ty, true);
        let seed_src = format!("obs(3, {})", crate::vals::spell(&seed).unwrap());
        let b1s = gen::src(&b1);
        let b2s = b2.as_ref().map(gen::src);
        let macro_src = match mac {
            "map3" => format!("l.map({}, {}, {})", xname, b1s, b2s.as_ref().unwrap()),
            "reduce" => format!("l.reduce(acc, {}, {}, {})", xname, b1s, seed_src),
            m => format!("l.{}({}, {})", m, xname, b1s),
        };
        let mut env = CelContext::new();
        let helper_src = "outer1 * 2 + 1";
        let mut setup = || -> Result<(), Out> {
            for (name, s) in [("helper", helper_src), ("main", macro_src.as_str()), ("b1", b1s.as_str())] {
                match mon::catch(|| env.add_program_str(name, s)) {
                    Ok(Ok(())) => {}
                    Ok(Err(e)) => return Err(Out::Err(e)),
                    Err((m, l)) => return Err(Out::Panic(m, l)),
                }
            }
            if let Some(s) = &b2s {
                match mon::catch(|| env.add_program_str("b2", s)) {
                    Ok(Ok(())) => {}
                    Ok(Err(e)) => return Err(Out::Err(e)),
                    Err((m, l)) => return Err(Out::Panic(m, l)),
                }
            }
            if mac == "reduce" {
                match mon::catch(|| env.add_program_str("seed", &seed_src)) {
                    Ok(Ok(())) => {}
                    Ok(Err(e)) => return Err(Out::Err(e)),
                    Err((m, l)) => return Err(Out::Panic(m, l)),
                }
            }
            Ok(())
        };
        if let Err(o) = setup() {
            rep.eval();
            if o.is_panic() {
                rep.viol("compile-panic", &o.show(), json!({"source": macro_src}));
            }
            rep.count("compile_rejected");
            return;
        }
        let lbinds = with(&binds, "l", &CelValue::from_list(items.clone()));

        // ---- prediction from per-element executions of the body ----
        let mut want_log: Vec<i64> = Vec::new();
        let mut pred: Option<Pred> = None;
        let mut acc_val = CelValue::from_null();
        if mac == "reduce" {
            let (o, l) = exec_env(&mut env, "seed", &lbinds);
            want_log.extend(l);
            match o {
                Out::Val(v) => acc_val = v,
                _ => pred = Some(Pred::Fail),
            }
        }
        let mut kept: Vec<CelValue> = Vec::new();
        let mut count = 0usize;
        if pred.is_none() {
            for it in &items {
                let mut eb = with(&lbinds, &xname, it);
                if mac == "reduce" {
                    eb = with(&eb, "acc", &acc_val);
                }
                let (o, l) = exec_env(&mut env, "b1", &eb);
                want_log.extend(l);
                let v = match o {
                    Out::Val(v) => v,
                    Out::Err(_) => {
                        pred = Some(Pred::Fail);
                        break;
                    }
                    Out::Panic(m, l) => {
                        rep.viol("body-panic", &format!("{} at {}", m, l), json!({"source": b1s}));
                        return;
                    }
                };
                let t = truthy(&v);
                match mac {
                    "all" => {
                        if !t {
                            pred = Some(Pred::Val(false.into()));
                            break;
                        }
                    }
                    "exists" => {
                        if t {
                            pred = Some(Pred::Val(true.into()));
                            break;
                        }
                    }
                    "exists_one" => {
                        if t {
                            count += 1;
                            if count > 1 {
                                pred = Some(Pred::Val(false.into()));
                                break;
                            }
                        }
                    }
                    "filter" => {
                        if t {
                            kept.push(it.clone());
                        }
                    }
                    "map" => kept.push(v),
                    "map3" => {
                        if t {
                            let (o2, l2) = exec_env(&mut env, "b2", &eb);
                            want_log.extend(l2);
                            match o2 {
                                Out::Val(v2) => kept.push(v2),
                                _ => {
                                    pred = Some(Pred::Fail);
                                    break;
                                }
                            }
                        }
                    }
                    _ => acc_val = v,
                }
            }
        }
        let want = pred.unwrap_or_else(|| match mac {
            "all" => Pred::Val(true.into()),
            "exists" => Pred::Val(false.into()),
            "exists_one" => Pred::Val((count == 1).into()),
            "filter" | "map" | "map3" => Pred::Val(CelValue::from_list(kept.clone())),
            _ => Pred::Val(acc_val.clone()),
        });

        // ---- the macro itself ----
        let (out, log) = exec_env(&mut env, "main", &lbinds);
        rep.eval();
        rep.count(&format!("macro/{}", mac));
        if len > 32 {
            rep.count("lists_longer_than_32");
        }
        let case = || json!({"source": macro_src, "helper": helper_src, "bindings": mon::binds_json(&lbinds),
            "expected": format!("{:?}", want).chars().take(300).collect::<String>(), "expected_calls": want_log.len(), "observed_calls": log.len(), "outcome": out.show()});
        let ok = match (&want, &out) {
            (_, Out::Panic(..)) => false,
            (Pred::Fail, Out::Err(_)) => true,
            (Pred::Val(v), Out::Val(o)) => canon(v) == canon(o),
            _ => false,
        };
        if !ok {
            let class = match (&want, &out) {
                (_, Out::Panic(..)) => "panic",
                (Pred::Fail, _) => "should-fail",
                (_, Out::Err(_)) => "should-not-fail",
                _ => "wrong-value",
            };
            rep.viol(
                &format!("fold|{}|{}{}", mac, class, if len > 32 { "|len>32" } else { "" }),
                &format!("{}: fold over per-element executions of the body predicts {:?}, macro gave {}", macro_src, want, out.show()),
                case(),
            );
        }
        if log != want_log {
            rep.viol(
                &format!("visits|{}|{}", mac, if log.len() > want_log.len() { "too-many" } else if log.len() < want_log.len() { "too-few" } else { "order" }),
                &format!("{}: body evaluations observed {:?}.. ({}), expected {:?}.. ({})", macro_src, &log[..log.len().min(12)], log.len(), &want_log[..want_log.len().min(12)], want_log.len()),
                case(),
            );
        }
        rep.distinct(&format!("{}|{}", macro_src, canon(&CelValue::from_list(items.clone()))), len >= 2);
        rep.sample(|| json!({"stage":"folds","source":macro_src,"list_len":len,"outcome":mon::clip(&out.show(), 160)}));
    });

    // ---- constant receivers: the body still sees the caller's bindings ------------------------------
    // A macro over a literal list / map may be evaluated by the compiler. Whatever it does, the body is
    // evaluated in the lexical environment of the call: outer variables that the body only *absorbs*
    // (inside has(), coalesce(), a list / map element) are visible exactly as with a run-time receiver.
    // Oracle: the same macro over the same elements held in a bound variable (never foldable).
    let nlr = ctx.n(40_000, 400_000);
    const ABSORBING_BOOL: [&str; 10] = [
        "has(o1)", "!has(o1)", "has(om.a)", "coalesce(o1, 0) == o1", "coalesce(o1, @) == @", "size([@, o1]) == 2",
        "[@, o1][1] == o1", "coalesce(om.zz, o1) == o1", "has(o1) || @ == @", "type(coalesce(o1, 'none')) == int",
    ];
    const ABSORBING_ANY: [&str; 8] = [
        "coalesce(o1, 0)", "[@, o1]", "has(o1)", "{'k': o1}", "coalesce(om.a, om.zz, o1)", "[has(o1), has(om.a), has(om.zz)]",
        "coalesce(o1, @)", "f'{coalesce(o1, 0)}'",
    ];
    ctx.stage("constant-receiver", nlr, true, |_idx, rng, rep| {
        let on_map = rng.chance(1, 4);
        let mac = if on_map { *rng.pick(&["map", "filter", "map3"]) } else { *rng.pick(&MACROS) };
        let xname = rng.pick(&["x", "it", "k", "size"]).to_string();
        let len = rng.below(5);
        let (recv_val, et): (CelValue, Ty) = if on_map {
            let mut m = std::collections::HashMap::new();
            for _ in 0..len {
                m.insert(rng.pick(&["a", "b", "k", "zz"]).to_string(), CelValue::from_int(rng.range(-3, 3)));
            }
            (CelValue::from_map(m), Ty::Str)
        } else {
            let et = rng.pick(&[Ty::Int, Ty::Int, Ty::Str, Ty::Bool]).clone();
            (CelValue::from_list((0..len).map(|_| gen::value_of(rng, &et, true)).collect()), et)
        };
        let recv_lit = match crate::vals::spell(&recv_val) {
            Some(l) => l,
            None => return,
        };
        // outer environment: o1 an int, om a map with key a (never zz); sometimes left unbound
        let mut binds: Vec<(String, CelValue)> = Vec::new();
        let unbound_outer = rng.chance(1, 6);
        if !unbound_outer {
            binds.push(("o1".into(), rng.range(1, 9).into()));
            binds.push(("om".into(), crate::vals::mk_map(&[("a", rng.range(1, 9).into())])));
        }
        let outer = vec![VarDecl { name: "o1".into(), ty: Ty::Int }, VarDecl { name: "om".into(), ty: Ty::Map(Box::new(Ty::Int)) }];
        let mut cfg = GenCfg::basic(outer.clone());
        cfg.vars.push(VarDecl { name: xname.clone(), ty: et.clone() });
        cfg.allow_fstr = false;
        cfg.loop_names = vec![xname.clone(), "y".into()];
        let acc_ty = Ty::Int;
        if mac == "reduce" {
            cfg.vars.push(VarDecl { name: "acc".into(), ty: acc_ty.clone() });
        }
        let d = 1 + rng.below(2) as u32;
        let templated = rng.chance(2, 3);
        let (pred_src, val_src): (String, String) = {
            let mut g = Gen::new(rng, cfg);
            let p = gen::src(&g.cond(d));
            let t = gen::random_ty(g.rng, 0);
            let v = gen::src(&if mac == "reduce" { g.expr(&acc_ty, d) } else { g.expr(&t, d) });
            (p, v)
        };
        let (pred_src, val_src) = if templated {
            let tb = rng.pick(&ABSORBING_BOOL).replace('@', &xname);
            let ta = rng.pick(&ABSORBING_ANY).replace('@', &xname);
            let p = match rng.below(3) {
                0 => tb,
                1 => format!("{} && ({})", tb, pred_src),
                _ => format!("({}) || {}", pred_src, tb),
            };
            let v = if mac == "reduce" { format!("acc + coalesce(o1, 0) + size([{}])", ta) } else { ta };
            (p, v)
        } else {
            (pred_src, val_src)
        };
        let tail = match mac {
            "all" | "exists" | "exists_one" | "filter" => format!("{}({}, {})", mac, xname, pred_src),
            "map" => format!("map({}, {})", xname, val_src),
            "map3" => format!("map({}, {}, {})", xname, pred_src, val_src),
            _ => format!("reduce(acc, {}, {}, 0)", xname, val_src),
        };
        let lit_src = format!("{}.{}", recv_lit, tail);
        let var_src = format!("r.{}", tail);
        let vbinds = with(&binds, "r", &recv_val);
        let reference = mon::run1(&var_src, &vbinds);
        rep.eval();
        rep.count(&format!("constant_receiver/{}", mac));
        if templated {
            rep.count("constant_receiver_absorbing_bodies");
        }
        if unbound_outer {
            rep.count("constant_receiver_outer_unbound");
        }
        // the literal form, alone and nested where the compiler sees more context
        for (shape, src) in [("plain", lit_src.clone()), ("in-list", format!("[{}][0]", lit_src)), ("in-ternary", format!("true ? {} : 0", lit_src))] {
            let out = mon::run1(&src, &binds);
            rep.eval();
            if out.canon_anyerr() != reference.canon_anyerr() {
                rep.viol(
                    &format!("constant-receiver|{}|{}|{}", mac, shape, match (&reference, &out) {
                        (Out::Val(_), Out::Val(_)) => "different-values",
                        (Out::Val(_), _) => "literal-form-fails",
                        (_, Out::Val(_)) => "bound-form-fails",
                        _ => "other",
                    }),
                    &format!("`{}` gives {} but `{}` with r bound to the same elements gives {} (bindings {})", src, out.show(), var_src, reference.show(), mon::binds_json(&binds)),
                    json!({"literal_form": src, "bound_form": var_src, "bindings": mon::binds_json(&vbinds)}),
                );
            }
        }
        rep.distinct(&lit_src, len >= 1);
        rep.sample(|| json!({"stage":"constant-receiver","source":mon::clip(&lit_src, 200),"outcome":mon::clip(&reference.show(), 120)}));
    });

    // ---- the same folds with a map as receiver: the loop variable ranges over the keys -------------
    let nmf = ctx.n(20_000, 200_000);
    ctx.stage("folds-on-maps", nmf, true, |_idx, rng, rep| {
        let mac = *rng.pick(&["map", "filter", "map3"]);
        let nkeys = rng.below(6);
        let mut m = std::collections::HashMap::new();
        for _ in 0..nkeys {
            m.insert(rng.pick(&["a", "b", "k", "size", "é", "", "zz", "x1"]).to_string(), CelValue::from_int(rng.range(-3, 3)));
        }
        let xname = rng.pick(&["k", "x", "outer1", "size"]).to_string();
        let outer = vec![VarDecl { name: "outer1".into(), ty: Ty::Int }, VarDecl { name: "m".into(), ty: Ty::Map(Box::new(Ty::Int)) }];
        let mut binds: Vec<(String, CelValue)> = vec![("outer1".into(), rng.range(-5, 5).into()), ("m".into(), CelValue::from_map(m.clone()))];
        if xname != "outer1" && rng.chance(1, 2) {
            binds.push((xname.clone(), 12345.into()));
        }
        let mut cfg = GenCfg::basic(outer.iter().filter(|v| v.name != xname).cloned().collect());
        cfg.vars.push(VarDecl { name: xname.clone(), ty: Ty::Str });
        cfg.allow_fstr = false;
        cfg.loop_names = vec![xname.clone(), "y".into()];
        let d = 1 + rng.below(3) as u32;
        let (b1, b2) = {
            let mut g = Gen::new(rng, cfg);
            match mac {
                "map" => {
                    let t = gen::random_ty(g.rng, 0);
                    (g.expr(&t, d), None)
                }
                "filter" => (g.cond(d), None),
                _ => {
                    let t = gen::random_ty(g.rng, 0);
                    (g.cond(d), Some(g.expr(&t, d)))
                }
            }
        };
        let b1s = gen::src(&call("obs", vec![lit(1), b1]));
        let b2s = b2.map(|b| gen::src(&call("obs", vec![lit(2), b])));
        let macro_src = match mac {
            "map3" => format!("m.map({}, {}, {})", xname, b1s, b2s.as_ref().unwrap()),
            "filter" => format!("m.filter({}, {})", xname, b1s),
            _ => format!("m.map({}, {})", xname, b1s),
        };
        let mut env = CelContext::new();
        let mut ok = env.add_program_str("main", &macro_src).is_ok() && env.add_program_str("b1", &b1s).is_ok();
        if let Some(s) = &b2s {
            ok &= env.add_program_str("b2", s).is_ok();
        }
        if !ok {
            rep.count("compile_rejected");
            return;
        }
        // the fixed order: whatever order `m.map(k, k)` reports for this very map
        let order = match mon::run1("m.map(zz9, zz9)", &binds) {
            Out::Val(CelValue::List(l)) => l,
            other => {
                rep.viol("map-fold|keys", &format!("m.map(k, k) gave {}", other.show()), json!({"bindings": mon::binds_json(&binds)}));
                return;
            }
        };
        let mut want_log: Vec<i64> = Vec::new();
        let mut kept: Vec<CelValue> = Vec::new();
        let mut failed = false;
        for key in &order {
            let eb = with(&binds, &xname, key);
            let (o, l) = exec_env(&mut env, "b1", &eb);
            want_log.extend(l);
            let v = match o {
                Out::Val(v) => v,
                _ => {
                    failed = true;
                    break;
                }
            };
            match mac {
                "map" => kept.push(v),
                "filter" => {
                    if truthy(&v) {
                        kept.push(key.clone());
                    }
                }
                _ => {
                    if truthy(&v) {
                        let (o2, l2) = exec_env(&mut env, "b2", &eb);
                        want_log.extend(l2);
                        match o2 {
                            Out::Val(v2) => kept.push(v2),
                            _ => {
                                failed = true;
                                break;
                            }
                        }
                    }
                }
            }
        }
        let (out, log) = exec_env(&mut env, "main", &binds);
        rep.eval();
        rep.count(&format!("macro-on-map/{}", mac));
        let okv = match (&out, failed) {
            (Out::Panic(..), _) => false,
            (Out::Err(_), true) => true,
            (Out::Val(v), false) => canon(v) == canon(&CelValue::from_list(kept.clone())),
            _ => false,
        };
        if !okv {
            rep.viol(
                &format!("map-fold|{}|{}", mac, if failed { "should-fail" } else { "wrong-value" }),
                &format!("{}: fold over the keys {:?} predicts {}, macro gave {}", macro_src, order.iter().map(canon).collect::<Vec<_>>(),
                    if failed { "a failure".to_string() } else { canon(&CelValue::from_list(kept.clone())) }, out.show()),
                json!({"source": macro_src, "bindings": mon::binds_json(&binds)}),
            );
        }
        if log != want_log {
            rep.viol(
                &format!("map-visits|{}", mac),
                &format!("{}: body evaluations observed {:?}, expected {:?}", macro_src, &log[..log.len().min(12)], &want_log[..want_log.len().min(12)]),
                json!({"source": macro_src, "bindings": mon::binds_json(&binds)}),
            );
        }
        rep.distinct(&format!("{}|{}", macro_src, canon(&CelValue::from_map(m.clone()))), nkeys >= 2);
    });

    // ---- maps: filter / map range over the keys in one fixed order ------------------------------
    let nm = ctx.n(3_000, 30_000);
    ctx.stage("map-order", nm, true, |_idx, rng, rep| {
        let nkeys = 1 + rng.below(12);
        let mut keys: Vec<String> = Vec::new();
        while keys.len() < nkeys {
            let k = format!("{}{}", rng.pick(&["k", "a", "é", "zz", ""]), rng.below(40));
            if !keys.contains(&k) {
                keys.push(k);
            }
        }
        let mut orders: Vec<String> = Vec::new();
        let mut forders: Vec<String> = Vec::new();
        for round in 0..20 {
            // a freshly built, equal map every round (fresh hasher state), inserted in a rotated order
            let mut m = std::collections::HashMap::new();
            for i in 0..keys.len() {
                let k = &keys[(i + round) % keys.len()];
                m.insert(k.clone(), CelValue::from_int(1));
            }
            let binds = vec![("m".to_string(), CelValue::from_map(m))];
            let o1 = mon::run1("m.map(k, k)", &binds);
            let o2 = mon::run1("m.filter(k, true)", &binds);
            rep.eval();
            rep.eval();
            // literal map (built by the compiler / MkDict)
            if round == 0 {
                let lit_src = format!("{{{}}}.map(k, k)", keys.iter().map(|k| format!("{}: 1", crate::vals::spell_string(k))).collect::<Vec<_>>().join(", "));
                let o3 = mon::run1(&lit_src, &[]);
                orders.push(o3.canon());
            }
            orders.push(o1.canon());
            forders.push(o2.canon());
            if let Out::Val(CelValue::List(l)) = &o1 {
                let mut got: Vec<String> = l.iter().map(canon).collect();
                let mut want: Vec<String> = keys.iter().map(|k| canon(&k.as_str().into())).collect();
                got.sort();
                want.sort();
                if got != want {
                    rep.viol("map-order|not-a-permutation", &format!("m.map(k, k) = {} for keys {:?}", o1.show(), keys), json!({"keys": keys}));
                }
            } else {
                rep.viol("map-order|outcome", &format!("m.map(k, k) gave {}", o1.show()), json!({"keys": keys}));
            }
        }
        orders.dedup();
        forders.dedup();
        if orders.len() != 1 || forders.len() != 1 || orders[0] != forders[0] {
            rep.viol(
                "map-order|varies",
                &format!("equal maps iterate in different orders: {} distinct map() orders, {} distinct filter() orders, e.g. {} vs {}", orders.len(), forders.len(), orders[0], orders.last().unwrap()),
                json!({"keys": keys}),
            );
        }
        rep.distinct(&format!("{:?}", keys), keys.len() >= 2);
    });
    // a fixed battery whose result text is compared across worker processes by the driver
    let mut battery = String::new();
    for n in [2usize, 3, 5, 8, 12] {
        let keys: Vec<String> = (0..n).map(|i| format!("key{}", i * 7 % 13)).collect();
        let src = format!("{{{}}}.map(k, k)", keys.iter().map(|k| format!("'{}': 1", k)).collect::<Vec<_>>().join(", "));
        battery.push_str(&mon::run1(&src, &[]).canon());
        battery.push(';');
    }
    ctx.rep.note("maporder", &battery);
}
