//! C16 - time arithmetic, calendar accessors, zones and unit conversion are consistent.
//! Oracles: algebraic laws over observed results; an independent days-to-civil algorithm
//! (Hinnant) with offsets from chrono_tz (trusted for the tz database only); exact unit definitions.

use chrono::{DateTime, Duration, Offset, TimeZone, Utc};
use chrono_tz::Tz;
use rscel::CelValue;
use serde_json::json;

use crate::mon::{self, canon, Ctx, Out, Rep};
use crate::rng::Rng;
use crate::vals;

/// days since 1970-01-01 -> (year, month 1..12, day 1..31)   (Howard Hinnant's civil_from_days)
fn civil_from_days(z: i64) -> (i64, i64, i64) {
    let z = z + 719468;
    let era = if z >= 0 { z } else { z - 146096 } / 146097;
    let doe = z - era * 146097;
    let yoe = (doe - doe / 1460 + doe / 36524 - doe / 146096) / 365;
    let y = yoe + era * 400;
    let doy = doe - (365 * yoe + yoe / 4 - yoe / 100);
    let mp = (5 * doy + 2) / 153;
    let d = doy - (153 * mp + 2) / 5 + 1;
    let m = if mp < 10 { mp + 3 } else { mp - 9 };
    (if m <= 2 { y + 1 } else { y }, m, d)
}

fn days_from_civil(y: i64, m: i64, d: i64) -> i64 {
    let y = if m <= 2 { y - 1 } else { y };
    let era = if y >= 0 { y } else { y - 399 } / 400;
    let yoe = y - era * 400;
    let doy = (153 * (if m > 2 { m - 3 } else { m + 9 }) + 2) / 5 + d - 1;
    let doe = yoe * 365 + yoe / 4 - yoe / 100 + doy;
    era * 146097 + doe - 719468
}

struct Civil {
    year: i64,
    month0: i64,
    dom0: i64,
    date: i64,
    doy0: i64,
    dow0: i64,
    hour: i64,
    min: i64,
    sec: i64,
}

fn civil(local_secs: i64) -> Civil {
    let days = local_secs.div_euclid(86400);
    let sod = local_secs.rem_euclid(86400);
    let (y, m, d) = civil_from_days(days);
    Civil {
        year: y,
        month0: m - 1,
        dom0: d - 1,
        date: d,
        doy0: days - days_from_civil(y, 1, 1),
        dow0: (days + 4).rem_euclid(7), // 1970-01-01 was a Thursday; Sunday = 0
        hour: sod / 3600,
        min: (sod % 3600) / 60,
        sec: sod % 60,
    }
}

const ACCESSORS: [&str; 10] = [
    "getFullYear", "getMonth", "getDayOfMonth", "getDate", "getDayOfYear", "getDayOfWeek", "getHours", "getMinutes", "getSeconds", "getMilliseconds",
];

fn field(c: &Civil, ms: i64, f: &str) -> i64 {
    match f {
        "getFullYear" => c.year,
        "getMonth" => c.month0,
        "getDayOfMonth" => c.dom0,
        "getDate" => c.date,
        "getDayOfYear" => c.doy0,
        "getDayOfWeek" => c.dow0,
        "getHours" => c.hour,
        "getMinutes" => c.min,
        "getSeconds" => c.sec,
        _ => ms,
    }
}

fn check_accessors(rep: &mut Rep, t: DateTime<Utc>, zone: Option<&str>) {
    let secs = t.timestamp();
    let ms = t.timestamp_subsec_millis() as i64;
    let tz: Option<Tz> = zone.and_then(|z| z.parse::<Tz>().ok());
    let offset: i64 = match (&zone, &tz) {
        (None, _) => 0,
        (Some(_), Some(tz)) => tz.offset_from_utc_datetime(&t.naive_utc()).fix().local_minus_utc() as i64,
        (Some(_), None) => 0,
    };
    let c = civil(secs + offset);
    let mut binds = vec![("t".to_string(), CelValue::from_timestamp(t))];
    if let Some(z) = zone {
        binds.push(("z".to_string(), z.into()));
    }
    for f in ACCESSORS {
        let src = if zone.is_some() { format!("t.{}(z)", f) } else { format!("t.{}()", f) };
        let out = mon::run1(&src, &binds);
        rep.eval();
        rep.count(if zone.is_some() { "accessor_zoned" } else { "accessor_utc" });
        if zone.is_some() && tz.is_none() {
            // unknown zone: must fail
            if !out.is_err() {
                rep.viol(&format!("accessor|{}|unknown-zone-accepted", f), &format!("{} with zone {:?} gave {}", src, zone, out.show()), json!({"source": src, "zone": zone}));
            }
            continue;
        }
        let want = field(&c, ms, f);
        let ok = matches!(&out, Out::Val(CelValue::Int(i)) if *i == want);
        if !ok {
            let delta = match &out {
                Out::Val(CelValue::Int(i)) => format!("off-by-{}", i - want),
                Out::Err(_) => "error".to_string(),
                Out::Panic(..) => "panic".to_string(),
                _ => "wrong-type".to_string(),
            };
            rep.viol(
                &format!("accessor|{}|{}|{}", f, if zone.is_some() { "zoned" } else { "utc" }, delta),
                &format!("{} for t={} zone={:?} (offset {} s): expected {}, got {}", src, t.to_rfc3339(), zone, offset, want, out.show()),
                json!({"source": src, "t": t.to_rfc3339(), "zone": zone}),
            );
        }
    }
}

fn law(rep: &mut Rep, name: &str, src: &str, binds: &[(String, CelValue)], want: &CelValue, intermediate: &str) {
    // the law applies whenever the intermediate result is representable (evaluates)
    let mid = mon::run1(intermediate, binds);
    rep.eval();
    if mid.is_panic() {
        rep.viol(&format!("law|{}|panic", name), &format!("{} panicked: {}", intermediate, mid.show()), json!({"source": intermediate, "bindings": mon::binds_json(binds)}));
        return;
    }
    if !mid.is_val() {
        rep.count("law_out_of_range");
        return;
    }
    let out = mon::run1(src, binds);
    rep.eval();
    rep.count(&format!("law/{}", name));
    let ok = matches!(&out, Out::Val(v) if canon(v) == canon(want));
    if !ok {
        rep.viol(
            &format!("law|{}", name),
            &format!("{} with {}: expected {}, got {}", src, mon::binds_json(binds), canon(want), out.show()),
            json!({"source": src, "bindings": mon::binds_json(binds)}),
        );
    }
}

fn random_ts(rng: &mut Rng) -> DateTime<Utc> {
    match rng.below(8) {
        0 => *rng.pick(&vals::timestamp_pool()),
        1 => {
            // year boundaries
            let y = rng.range(1, 9999);
            let d = days_from_civil(y, 1, 1);
            vals::ts(d * 86400 + rng.range(-2, 2), 0)
        }
        2 => {
            // leap days
            let y = rng.range(1, 2499) * 4;
            let d = days_from_civil(y, 2, 28);
            vals::ts(d * 86400 + rng.range(0, 3 * 86400), 0)
        }
        3 => {
            // around DST transitions of the last decades: a random hour in March / November
            let y = rng.range(1990, 2037);
            let m = *rng.pick(&[3, 4, 10, 11]);
            let d = days_from_civil(y, m, rng.range(1, 30));
            vals::ts(d * 86400 + rng.range(0, 86399), rng.below(1000) as u32 * 1_000_000)
        }
        _ => vals::ts(rng.range(-62135596800, 253402300799), (rng.below(1000) as u32) * 1_000_000 + rng.below(2) as u32),
    }
}

fn random_dur(rng: &mut Rng) -> Duration {
    match rng.below(6) {
        0 => *rng.pick(&vals::duration_pool()),
        1 => Duration::nanoseconds(rng.range(-5_000_000_000, 5_000_000_000)),
        2 => Duration::milliseconds(rng.range(-100_000_000_000, 100_000_000_000)),
        _ => Duration::seconds(rng.range(-400_000_000_000, 400_000_000_000)) + Duration::nanoseconds(rng.range(0, 999_999_999)),
    }
}

// exact definitions: factor to the SI base unit (temperature handled separately)
const MASS: [(&str, f64); 8] = [
    ("kg", 1.0), ("g", 1e-3), ("mg", 1e-6), ("lb", 0.45359237), ("oz", 0.45359237 / 16.0), ("stone", 14.0 * 0.45359237),
    ("slug", 14.593902937206364), ("tonne", 1000.0),
];
const VOLUME: [(&str, f64); 14] = [
    ("l", 1e-3), ("ml", 1e-6), ("gal", 3.785411784e-3), ("quart", 3.785411784e-3 / 4.0), ("dry quart", 1.101220942715e-3),
    ("pint", 3.785411784e-3 / 8.0), ("dry pint", 5.506104713575e-4), ("cup", 3.785411784e-3 / 16.0), ("fl oz", 3.785411784e-3 / 128.0),
    ("tbsp", 3.785411784e-3 / 256.0), ("tsp", 3.785411784e-3 / 768.0), ("m3", 1.0), ("ft3", 0.028316846592), ("yd3", 0.764554857984),
];
const SPEED: [(&str, f64); 5] = [("m/s", 1.0), ("km/h", 1.0 / 3.6), ("mph", 0.44704), ("knot", 1852.0 / 3600.0), ("ft/s", 0.3048)];
const TEMP: [&str; 3] = ["C", "F", "K"];

fn to_kelvin(x: f64, u: &str) -> f64 {
    match u {
        "C" => x + 273.15,
        "F" => (x - 32.0) * 5.0 / 9.0 + 273.15,
        _ => x,
    }
}
fn from_kelvin(k: f64, u: &str) -> f64 {
    match u {
        "C" => k - 273.15,
        "F" => (k - 273.15) * 9.0 / 5.0 + 32.0,
        _ => k,
    }
}

fn conv(x: f64, a: &str, b: &str) -> Out {
    mon::run1("uomConvert(x, a, b)", &[("x".to_string(), x.into()), ("a".to_string(), a.into()), ("b".to_string(), b.into())])
}

fn close(a: f64, b: f64, rel: f64, abs: f64) -> bool {
    if a == b {
        return true;
    }
    (a - b).abs() <= abs || (a - b).abs() <= rel * a.abs().max(b.abs())
}

fn fval(o: &Out) -> Option<f64> {
    match o {
        Out::Val(CelValue::Float(f)) => Some(*f),
        _ => None,
    }
}

pub fn run(ctx: &mut Ctx) {
    // ---- arithmetic laws ---------------------------------------------------------------------------
    let n = ctx.n(60_000, 1_000_000);
    ctx.stage("laws", n, true, |_idx, rng, rep| {
        let t1 = random_ts(rng);
        let t2 = random_ts(rng);
        let d1 = random_dur(rng);
        let d2 = random_dur(rng);
        let b: Vec<(String, CelValue)> = vec![
            ("t".into(), t1.into()), ("u".into(), t2.into()), ("d".into(), d1.into()), ("e".into(), d2.into()),
        ];
        law(rep, "(t+d)-d==t", "(t + d) - d", &b, &t1.into(), "t + d");
        law(rep, "(d+t)-d==t", "(d + t) - d", &b, &t1.into(), "d + t");
        law(rep, "(t-d)+d==t", "(t - d) + d", &b, &t1.into(), "t - d");
        law(rep, "(t-u)+u==t", "(t - u) + u", &b, &t1.into(), "t - u");
        law(rep, "d+e-e==d", "d + e - e", &b, &d1.into(), "d + e");
        law(rep, "d-e+e==d", "d - e + e", &b, &d1.into(), "d - e");
        // ordering is chronological
        for (src, want) in [("t < u", t1 < t2), ("t <= u", t1 <= t2), ("t == u", t1 == t2), ("t > u", t1 > t2), ("d < e", d1 < d2), ("d >= e", d1 >= d2),
                            ("t + d >= t", true)] {
            if src == "t + d >= t" {
                // only when d is non-negative and the sum is representable
                if d1 < Duration::zero() || !mon::run1("t + d", &b).is_val() {
                    continue;
                }
            }
            let out = mon::run1(src, &b);
            rep.eval();
            rep.count("ordering_checks");
            if !matches!(&out, Out::Val(CelValue::Bool(x)) if *x == want) {
                rep.viol(&format!("order|{}", src), &format!("{} with {}: expected {}, got {}", src, mon::binds_json(&b), want, out.show()), json!({"source": src, "bindings": mon::binds_json(&b)}));
            }
        }
        // results outside the representable range are errors, never panics or wrapped values
        for src in ["t + d", "t - d", "d + e", "d - e", "t - u", "d + t"] {
            let out = mon::run1(src, &b);
            rep.eval();
            if out.is_panic() {
                rep.viol(&format!("range|{}|panic", src), &out.show(), json!({"source": src, "bindings": mon::binds_json(&b)}));
            }
        }
        // literal form of a sample (timestamps in years 1..9999 have a spelling)
        if rng.chance(1, 8) {
            if let (Some(st), Some(sd)) = (vals::spell(&t1.into()), vals::spell(&d1.into())) {
                let v = mon::run1("t + d", &b);
                let l = mon::run1(&format!("{} + {}", st, sd), &[]);
                rep.eval();
                if v.canon_anyerr() != l.canon_anyerr() {
                    rep.viol("laws|literal-form-differs", &format!("t + d gives {} bound and {} spelled ({} + {})", v.show(), l.show(), st, sd), json!({"t": st, "d": sd}));
                }
            }
        }
        rep.distinct(&format!("{}|{}|{}", canon(&t1.into()), canon(&d1.into()), canon(&t2.into())), true);
        rep.sample(|| json!({"stage":"laws","t":t1.to_rfc3339(),"u":t2.to_rfc3339(),"d":canon(&d1.into()),"e":canon(&d2.into())}));
    });

    // ---- calendar accessors: UTC and every zone of the tz database -------------------------------------
    let zones: Vec<&'static str> = chrono_tz::TZ_VARIANTS.iter().map(|z| z.name()).collect();
    let nz = zones.len() as u64;
    let per_zone = ctx.n(12, 120);
    ctx.stage("accessors-zones", nz, true, |idx, rng, rep| {
        let zone = zones[idx as usize];
        for k in 0..per_zone {
            let t = random_ts(rng);
            check_accessors(rep, t, Some(zone));
            if k == 0 {
                check_accessors(rep, t, None);
            }
        }
        rep.count("zones_exercised");
        rep.distinct(zone, true);
    });
    let na = ctx.n(15_000, 300_000);
    ctx.stage("accessors-random", na, true, |_idx, rng, rep| {
        let t = random_ts(rng);
        check_accessors(rep, t, None);
        // the zone-less form equals the form with zone "UTC"
        check_accessors(rep, t, Some("UTC"));
        let z = *rng.pick(&["America/New_York", "Europe/Berlin", "Asia/Kolkata", "Australia/Lord_Howe", "Pacific/Chatham", "America/St_Johns", "Asia/Kathmandu", "Pacific/Kiritimati", "US/Pacific", "HST", "Etc/GMT+12", "Africa/Casablanca"]);
        check_accessors(rep, t, Some(z));
        if rng.chance(1, 10) {
            // unknown, misspelt, empty, case-changed names
            let bad = *rng.pick(&["", "Nowhere/City", "utc ", "america/new_york ", "Europe/Berlin2", "UTC+25", "+01:00", "é", "GMT+99"]);
            check_accessors(rep, t, Some(bad));
            rep.count("unknown_zone_checks");
        }
        rep.distinct(&t.to_rfc3339(), true);
        rep.sample(|| json!({"stage":"accessors","t":t.to_rfc3339(),"zone":z}));
    });

    // ---- duration accessors ----------------------------------------------------------------------------------
    let nd = ctx.n(20_000, 200_000);
    ctx.stage("duration-accessors", nd, true, |_idx, rng, rep| {
        let d = random_dur(rng);
        let b = vec![("d".to_string(), CelValue::from_duration(d))];
        let total_ns: i128 = d.num_seconds() as i128 * 1_000_000_000 + d.subsec_nanos() as i128;
        let secs = total_ns / 1_000_000_000; // truncation toward zero
        let sub_ms = (total_ns % 1_000_000_000) / 1_000_000;
        for (f, want) in [("getHours", secs / 3600), ("getMinutes", secs / 60), ("getSeconds", secs), ("getMilliseconds", sub_ms)] {
            let out = mon::run1(&format!("d.{}()", f), &b);
            rep.eval();
            rep.count("duration_accessor_checks");
            if !matches!(&out, Out::Val(CelValue::Int(i)) if *i as i128 == want) {
                rep.viol(&format!("duration-accessor|{}", f), &format!("d.{}() for d={}: expected {}, got {}", f, canon(&d.into()), want, out.show()), json!({"d": canon(&d.into())}));
            }
        }
        rep.distinct(&canon(&d.into()), true);
    });

    // ---- unit conversion ----------------------------------------------------------------------------------------
    let mags = [0.0, 1.0, -1.0, 0.5, 2.5, 100.0, 1e-9, 1e9, 12345.678, -273.15, 37.0, 1e-3, 7.0, 1e15, -40.0];
    let cats: Vec<(&str, Vec<(&str, f64)>)> = vec![("mass", MASS.to_vec()), ("volume", VOLUME.to_vec()), ("speed", SPEED.to_vec())];
    let mut pairs: Vec<(usize, usize, usize)> = Vec::new();
    for (ci, (_, us)) in cats.iter().enumerate() {
        for a in 0..us.len() {
            for b in 0..us.len() {
                pairs.push((ci, a, b));
            }
        }
    }
    ctx.stage("units-linear", pairs.len() as u64, true, |idx, rng, rep| {
        let (ci, ai, bi) = pairs[idx as usize];
        let (cname, us) = &cats[ci];
        let (a, fa) = us[ai];
        let (b, fb) = us[bi];
        for k in 0..mags.len() + 8 {
            let x = if k < mags.len() { mags[k] } else { (rng.next() as i64 as f64) / (1u64 << rng.below(50)) as f64 };
            let ab = conv(x, a, b);
            rep.eval();
            rep.count("unit_conversions");
            let y = match fval(&ab) {
                Some(y) => y,
                None => {
                    rep.viol(&format!("units|{}|fails", cname), &format!("uomConvert({:?}, {}, {}) gave {}", x, a, b, ab.show()), json!({"x": x, "from": a, "to": b}));
                    continue;
                }
            };
            // agreement with the exact definitions (uom carries 7-digit factors: 1e-6 relative)
            let want = x * fa / fb;
            if !close(y, want, 1e-6, 0.0) {
                rep.viol(&format!("units|definition|{}->{}", a, b), &format!("uomConvert({:?}, {}, {}) = {:?}, exact definitions give {:?}", x, a, b, y, want), json!({"x": x, "from": a, "to": b}));
            }
            // identity
            if ai == bi && !close(y, x, 1e-12, 0.0) {
                rep.viol(&format!("units|identity|{}", a), &format!("uomConvert({:?}, {}, {}) = {:?}", x, a, b, y), json!({"x": x, "unit": a}));
            }
            // inverse
            if let Some(back) = fval(&conv(y, b, a)) {
                if !close(back, x, 1e-12, 0.0) {
                    rep.viol(&format!("units|inverse|{}", cname), &format!("{:?} {} -> {} -> {} gives {:?}", x, a, b, a, back), json!({"x": x, "from": a, "to": b}));
                }
            }
            // transitivity through a third unit
            let (c, _) = us[rng.below(us.len())];
            if let (Some(bc), Some(ac)) = (fval(&conv(y, b, c)), fval(&conv(x, a, c))) {
                if !close(bc, ac, 1e-12, 0.0) {
                    rep.viol(&format!("units|transitive|{}", cname), &format!("{:?} {} -> {} -> {} gives {:?}, directly {:?}", x, a, b, c, bc, ac), json!({"x": x, "a": a, "b": b, "c": c}));
                }
            }
        }
        // integer and unsigned inputs denote the same quantity
        let i = mon::run1("uomConvert(x, a, b)", &[("x".to_string(), 3.into()), ("a".to_string(), a.into()), ("b".to_string(), b.into())]);
        let u = mon::run1("uomConvert(x, a, b)", &[("x".to_string(), 3u64.into()), ("a".to_string(), a.into()), ("b".to_string(), b.into())]);
        let f = conv(3.0, a, b);
        rep.eval();
        if i.canon() != f.canon() || u.canon() != f.canon() {
            rep.viol("units|numeric-type", &format!("3 / 3u / 3.0 {} -> {}: {} / {} / {}", a, b, i.show(), u.show(), f.show()), json!({"from": a, "to": b}));
        }
        rep.distinct(&format!("{}->{}", a, b), true);
        rep.sample(|| json!({"stage":"units","from":a,"to":b,"category":cname}));
    });
    // ---- every documented spelling of a unit denotes that unit (case, blanks and a leading degree sign are ignored)
    const ALIASES: &[(&str, &[&str])] = &[
        ("kg", &["kilogram", "kilograms"]), ("g", &["gram", "grams"]), ("mg", &["milligram", "milligrams"]),
        ("lb", &["lbs", "pound", "pounds"]), ("oz", &["ounce", "ounces"]), ("stone", &["st", "stones"]), ("slug", &["slugs"]),
        ("tonne", &["ton", "metric_ton", "metric ton"]),
        ("l", &["liter", "liters", "litre", "litres"]), ("ml", &["milliliter", "milliliters", "millilitre", "millilitres"]),
        ("gal", &["gallon", "gallons"]), ("quart", &["quarts", "qt", "qts", "liquid quart", "liquid_quart"]), ("dry quart", &["dry_quart"]),
        ("pint", &["pints", "pt", "pts", "liquid pint", "liquid_pint"]), ("dry pint", &["dry_pint"]), ("cup", &["cups"]),
        ("fl oz", &["floz", "fluid ounce", "fluid_ounce", "fluid-ounce"]), ("tbsp", &["tablespoon", "tablespoons"]), ("tsp", &["teaspoon", "teaspoons"]),
        ("m3", &["cubic meter", "cubic_meter"]), ("ft3", &["cubic foot", "cubic_foot", "cu ft"]), ("yd3", &["cubic yard", "cubic_yard", "cu yd"]),
        ("m/s", &["meter per second", "meters per second", "meter_per_second"]), ("km/h", &["kph", "kilometer per hour", "kilometers per hour", "kilometer_per_hour"]),
        ("mph", &["mile per hour", "miles per hour", "mile_per_hour"]), ("knot", &["kn", "knots"]), ("ft/s", &["fps", "foot per second", "feet per second", "foot_per_second"]),
        ("K", &["kelvin", "k"]), ("C", &["celsius", "c", "°C"]), ("F", &["fahrenheit", "f", "°F"]),
    ];
    ctx.stage("units-aliases", ALIASES.len() as u64, true, |idx, rng, rep| {
        let (canon_unit, aliases) = ALIASES[idx as usize];
        for a in aliases.iter() {
            for variant in [a.to_string(), a.to_uppercase(), format!(" {} ", a), { let mut cs = a.chars(); match cs.next() { Some(f) => format!("{}{}", f.to_uppercase(), cs.as_str()), None => String::new() } }] {
                let x = rng.range(-1000, 1000) as f64 / 8.0;
                for (from, to) in [(variant.as_str(), canon_unit), (canon_unit, variant.as_str())] {
                    let out = conv(x, from, to);
                    rep.eval();
                    rep.count("unit_alias_checks");
                    let ok = matches!(fval(&out), Some(y) if close(y, x, 1e-12, 1e-9));
                    if !ok {
                        rep.viol(
                            &format!("units|alias|{}", canon_unit),
                            &format!("uomConvert({:?}, {:?}, {:?}) gave {}: `{}` is a documented spelling of `{}`", x, from, to, out.show(), a, canon_unit),
                            json!({"x": x, "from": from, "to": to}),
                        );
                    }
                }
            }
        }
        rep.distinct(canon_unit, true);
    });

    ctx.stage("units-temperature-and-errors", 9 + 1, true, |idx, rng, rep| {
        if idx < 9 {
            let (a, b) = (TEMP[(idx / 3) as usize], TEMP[(idx % 3) as usize]);
            for k in 0..60 {
                let x = if k < mags.len() { mags[k] } else { rng.range(-100000, 100000) as f64 / 8.0 };
                let y = match fval(&conv(x, a, b)) {
                    Some(y) => y,
                    None => {
                        rep.viol("units|temperature|fails", &format!("uomConvert({:?}, {}, {}) failed", x, a, b), json!({"x": x, "from": a, "to": b}));
                        continue;
                    }
                };
                rep.eval();
                rep.count("unit_conversions");
                let want = from_kelvin(to_kelvin(x, a), b);
                if !close(y, want, 1e-6, 1e-6) {
                    rep.viol(&format!("units|definition|{}->{}", a, b), &format!("uomConvert({:?}, {}, {}) = {:?}, definition gives {:?}", x, a, b, y, want), json!({"x": x, "from": a, "to": b}));
                }
                if let Some(back) = fval(&conv(y, b, a)) {
                    if !close(back, x, 1e-12, 1e-9) {
                        rep.viol("units|inverse|temperature", &format!("{:?} {} -> {} -> back gives {:?}", x, a, b, back), json!({"x": x, "from": a, "to": b}));
                    }
                }
                let c = TEMP[rng.below(3)];
                if let (Some(bc), Some(ac)) = (fval(&conv(y, b, c)), fval(&conv(x, a, c))) {
                    if !close(bc, ac, 1e-12, 1e-9) {
                        rep.viol("units|transitive|temperature", &format!("{:?} {} -> {} -> {}: {:?} vs {:?}", x, a, b, c, bc, ac), json!({"x": x}));
                    }
                }
            }
            rep.distinct(&format!("{}->{}", a, b), true);
        } else {
            // unknown units and cross-category pairs must fail
            let all: Vec<&str> = MASS.iter().map(|u| u.0).chain(VOLUME.iter().map(|u| u.0)).chain(SPEED.iter().map(|u| u.0)).chain(TEMP.iter().copied()).collect();
            let cat = |u: &str| if MASS.iter().any(|m| m.0 == u) { 0 } else if VOLUME.iter().any(|m| m.0 == u) { 1 } else if SPEED.iter().any(|m| m.0 == u) { 2 } else { 3 };
            for a in &all {
                for b in &all {
                    if cat(a) != cat(b) {
                        let out = conv(1.0, a, b);
                        rep.eval();
                        rep.count("unit_rejections");
                        if !out.is_err() {
                            rep.viol("units|cross-category-accepted", &format!("uomConvert(1.0, {}, {}) gave {}", a, b, out.show()), json!({"from": a, "to": b}));
                        }
                    }
                }
                for bad in ["", "furlong", "kgg", "k g", "m\\s", "°", "lb ft"] {
                    for (x, y) in [(*a, bad), (bad, *a)] {
                        let out = conv(1.0, x, y);
                        rep.eval();
                        rep.count("unit_rejections");
                        if !out.is_err() {
                            rep.viol("units|unknown-unit-accepted", &format!("uomConvert(1.0, {:?}, {:?}) gave {}", x, y, out.show()), json!({"from": x, "to": y}));
                        }
                    }
                }
            }
            // unknown on both sides - the same unknown name, two different ones, random text, known names with altered case / blanks
            // (names are trimmed, lower-cased and stripped of degree signs before lookup: "KG " is a known spelling)
            let unknown = ["", "furlong", "kgg", "k g", "m\\s", "°", "lb ft", "lightyear", "parsec", "0", "kg\u{0}", "kg.", "°°"];
            let unknown: Vec<&str> = unknown.iter().copied().filter(|x| ["kg", "l", "m/s", "c"].iter().all(|k| conv(1.0, x, k).is_err())).collect();
            rep.add("unit_unknown_names_confirmed", unknown.len() as u64);
            for x in unknown.iter().copied() {
                for y in unknown.iter().copied() {
                    let out = conv(1.0, x, y);
                    rep.eval();
                    rep.count("unit_rejections");
                    rep.count(if x == y { "unit_rejections_same_unknown_both_sides" } else { "unit_rejections_unknown_both_sides" });
                    if !out.is_err() {
                        rep.viol("units|unknown-unit-accepted", &format!("uomConvert(1.0, {:?}, {:?}) gave {}", x, y, out.show()), json!({"from": x, "to": y}));
                    }
                }
            }
            for _ in 0..40 {
                let x = crate::vals::random_string(rng, 5);
                // a name counts as unknown when it converts to no unit of any category (then it cannot convert to itself either)
                if ["kg", "l", "m/s", "c"].iter().any(|k| !conv(1.0, &x, k).is_err()) {
                    rep.count("unit_random_names_known");
                    continue;
                }
                for (p, q) in [(x.as_str(), x.as_str()), (x.as_str(), "kg"), ("kg", x.as_str())] {
                    let out = conv(2.0, p, q);
                    rep.eval();
                    rep.count("unit_rejections");
                    rep.count("unit_rejections_random_names");
                    if !out.is_err() {
                        rep.viol("units|unknown-unit-accepted", &format!("uomConvert(2.0, {:?}, {:?}) gave {}", p, q, out.show()), json!({"from": p, "to": q}));
                    }
                }
            }
            rep.distinct("unit-errors", true);
        }
    });
}
