//! C02 - parsing assigns the CEL grammar's precedence, associativity and grouping.
//! Oracle: an independent shunting-yard parser over the flat operator sequence, compared with the
//! normalised AST; plus metamorphic re-rendering (parentheses, white space) and an i128 evaluation
//! of arithmetic sequences.

use rscel::CelValue;
use serde_json::json;

use crate::astnorm;
use crate::gen::{self, BinOp, Parens, Ws, ALL_BINOPS, E};
use crate::mon::{self, Ctx, Out, Rep};
use crate::rng::Rng;

/// one operand of a flat sequence: identifier with a unary prefix run and a postfix chain
#[derive(Clone, Debug)]
struct Operand {
    prefix: (char, usize),
    name: String,
    postfix: u8, // 0 none, 1 .f, 2 [i], 3 .m(j), 4 [i].g, 5 (k) call
}

fn operand_tree(o: &Operand) -> E {
    let base = E::Var(o.name.clone());
    let e = match o.postfix {
        0 => base,
        1 => E::Field(Box::new(base), "f".into()),
        2 => E::Index(Box::new(base), Box::new(E::Var("i".into()))),
        3 => E::Method(Box::new(base), "m".into(), vec![E::Var("j".into())]),
        4 => E::Field(Box::new(E::Index(Box::new(base), Box::new(E::Var("i".into())))), "g".into()),
        _ => E::Call(o.name.clone(), vec![E::Var("k".into())]),
    };
    if o.prefix.1 > 0 {
        E::Un(o.prefix.0, o.prefix.1, Box::new(e))
    } else {
        e
    }
}

fn operand_text(o: &Operand) -> String {
    let mut s: String = std::iter::repeat(o.prefix.0).take(o.prefix.1).collect();
    s.push_str(&o.name);
    s.push_str(match o.postfix {
        0 => "",
        1 => ".f",
        2 => "[i]",
        3 => ".m(j)",
        4 => "[i].g",
        _ => "(k)",
    });
    s
}

/// the statement's table: higher binds tighter; equal precedence groups to the left
fn prec(op: BinOp) -> u8 {
    match op {
        BinOp::Or => 1,
        BinOp::And => 2,
        BinOp::Lt | BinOp::Le | BinOp::Gt | BinOp::Ge | BinOp::Eq | BinOp::Ne | BinOp::In => 3,
        BinOp::Add | BinOp::Sub => 4,
        BinOp::Mul | BinOp::Div | BinOp::Mod => 5,
    }
}

/// independent shunting-yard over operands / operators
fn shunting_yard(operands: &[E], ops: &[BinOp]) -> E {
    let mut out: Vec<E> = vec![operands[0].clone()];
    let mut stack: Vec<BinOp> = Vec::new();
    let reduce = |out: &mut Vec<E>, op: BinOp| {
        let r = out.pop().unwrap();
        let l = out.pop().unwrap();
        out.push(E::Bin(op, Box::new(l), Box::new(r)));
    };
    for (k, op) in ops.iter().enumerate() {
        while let Some(top) = stack.last() {
            if prec(*top) >= prec(*op) {
                let t = stack.pop().unwrap();
                reduce(&mut out, t);
            } else {
                break;
            }
        }
        stack.push(*op);
        out.push(operands[k + 1].clone());
    }
    while let Some(t) = stack.pop() {
        reduce(&mut out, t);
    }
    out.pop().unwrap()
}

fn flat_text(operands: &[Operand], ops: &[BinOp]) -> String {
    let mut s = operand_text(&operands[0]);
    for (k, op) in ops.iter().enumerate() {
        s.push(' ');
        s.push_str(op.text());
        s.push(' ');
        s.push_str(&operand_text(&operands[k + 1]));
    }
    s
}

fn parse_norm(src: &str) -> Result<E, Out> {
    let p = mon::compile(src)?;
    match p.ast() {
        Some(a) => Ok(astnorm::expr(a)),
        None => Err(Out::Panic("no ast".into(), "harness".into())),
    }
}

fn tree_text(e: &E) -> String {
    gen::render(e, Ws::Pretty, Parens::Redundant, None).text
}

/// literal leaves in the form the syntax-tree normaliser prints them (1e5 -> 100000.0, 0x1f -> 31, 0x10u -> 16u)
fn canon_literals(e: &E) -> E {
    e.map_tree(&|x| match x {
        E::Raw(t) => {
            let lower = t.to_ascii_lowercase();
            if let Some(h) = lower.strip_prefix("0x") {
                let (digits, u) = match h.strip_suffix('u') {
                    Some(d) => (d, "u"),
                    None => (h, ""),
                };
                return u64::from_str_radix(digits, 16).ok().map(|v| E::Raw(format!("{}{}", v, u)));
            }
            if lower.contains('e') && !lower.contains('"') && !lower.contains('\'') && lower != "true" && lower != "false" {
                return t.parse::<f64>().ok().map(|f| E::Raw(format!("{:?}", f)));
            }
            None
        }
        _ => None,
    })
}

fn check_shape(rep: &mut Rep, sub: &str, src: &str, want: &E) -> bool {
    let want = &canon_literals(want);
    rep.eval();
    match parse_norm(src) {
        Ok(got) => {
            if &got != want {
                rep.viol(
                    &format!("shape|{}", sub),
                    &format!("`{}` parsed as {} but the grammar's structure is {}", src, tree_text(&got), tree_text(want)),
                    json!({"source": src, "parsed": tree_text(&got), "expected": tree_text(want)}),
                );
                return false;
            }
            true
        }
        Err(o) => {
            rep.viol(&format!("shape|{}|rejected", sub), &format!("`{}` should parse, got {}", src, o.show()), json!({"source": src}));
            false
        }
    }
}

fn names() -> Vec<String> {
    ["a", "b", "c", "d", "e"].iter().map(|s| s.to_string()).collect()
}

const PREFIXES: [(char, usize); 5] = [('!', 0), ('!', 1), ('-', 1), ('!', 2), ('-', 2)];

fn eval_i128(e: &E, env: &[(String, i64)]) -> Option<i128> {
    match e {
        E::Var(n) => env.iter().find(|(k, _)| k == n).map(|(_, v)| *v as i128),
        E::Raw(t) => t.parse::<i64>().ok().map(|v| v as i128),
        E::Paren(a) => eval_i128(a, env),
        E::Un('-', n, a) => {
            let v = eval_i128(a, env)?;
            Some(if n % 2 == 1 { -v } else { v })
        }
        E::Bin(op, a, b) => {
            let (x, y) = (eval_i128(a, env)?, eval_i128(b, env)?);
            match op {
                BinOp::Add => Some(x + y),
                BinOp::Sub => Some(x - y),
                BinOp::Mul => Some(x * y),
                BinOp::Div => if y == 0 { None } else { Some(x / y) },
                BinOp::Mod => if y == 0 { None } else { Some(x % y) },
                _ => None,
            }
        }
        _ => None,
    }
}

pub fn run(ctx: &mut Ctx) {
    let nm = names();
    let nops = ALL_BINOPS.len() as u64;
    let quick = ctx.quick();

    // ---- exhaustive flat sequences: 1, 2 and 3 binary operators with unary prefixes ------------
    // index -> (k, operator tuple); prefixes enumerated inside
    let total = nops + nops * nops + nops * nops * nops;
    ctx.stage("flat-sequences", total, false, |idx, _rng, rep| {
        let (k, mut code) = if idx < nops { (1, idx) } else if idx < nops + nops * nops { (2, idx - nops) } else { (3, idx - nops - nops * nops) };
        let mut ops = Vec::new();
        for _ in 0..k {
            ops.push(ALL_BINOPS[(code % nops) as usize]);
            code /= nops;
        }
        let nprefix_combos: usize = if k == 3 && quick { 1 } else { 5usize.pow(k as u32 + 1) };
        for pc in 0..nprefix_combos {
            let mut c = pc;
            let operands: Vec<Operand> = (0..=k)
                .map(|i| {
                    let p = PREFIXES[c % 5];
                    c /= 5;
                    Operand { prefix: p, name: nm[i].clone(), postfix: 0 }
                })
                .collect();
            let trees: Vec<E> = operands.iter().map(operand_tree).collect();
            let want = shunting_yard(&trees, &ops);
            let src = flat_text(&operands, &ops);
            check_shape(rep, &format!("flat{}", k), &src, &want);
            rep.count(&format!("flat/{}ops", k));
            if pc == 0 {
                rep.distinct(&src, k >= 2);
                // ?: at every pair of positions (for k >= 2): c = ops[..i], x = ops[i+1..j], y = rest
                if k >= 2 {
                    for i in 0..k {
                        for j in (i + 1)..k {
                            let cond = shunting_yard(&trees[..=i], &ops[..i]);
                            let x = shunting_yard(&trees[i + 1..=j], &ops[i + 1..j]);
                            let y = shunting_yard(&trees[j + 1..], &ops[j + 1..]);
                            let want = E::Tern(Box::new(cond), Box::new(x), Box::new(y));
                            let mut s = operand_text(&operands[0]);
                            for (q, op) in ops.iter().enumerate() {
                                let t = if q == i { "?" } else if q == j { ":" } else { op.text() };
                                s.push_str(&format!(" {} {}", t, operand_text(&operands[q + 1])));
                            }
                            check_shape(rep, "ternary", &s, &want);
                            rep.count("ternary_positions");
                        }
                    }
                }
                // a postfix chain on every operand position
                for pos in 0..=k {
                    for pf in 1..=5u8 {
                        let mut o2 = operands.clone();
                        o2[pos].postfix = pf;
                        o2[pos].prefix = PREFIXES[(pos + pf as usize) % 5];
                        let trees2: Vec<E> = o2.iter().map(operand_tree).collect();
                        let want = shunting_yard(&trees2, &ops);
                        check_shape(rep, "postfix", &flat_text(&o2, &ops), &want);
                        rep.count("postfix_positions");
                    }
                }
            }
        }
        if idx % 97 == 0 {
            rep.sample(|| json!({"stage":"flat-sequences","operators":ops.iter().map(|o| o.text()).collect::<Vec<_>>()}));
        }
    });

    // right-nested ternaries: a ? b : c ? d : e  ==  a ? b : (c ? d : e)
    {
        let rep = &mut ctx.rep;
        let v = |s: &str| E::Var(s.to_string());
        let want = E::Tern(Box::new(v("a")), Box::new(v("b")), Box::new(E::Tern(Box::new(v("c")), Box::new(v("d")), Box::new(v("e")))));
        check_shape(rep, "ternary-right-nested", "a ? b : c ? d : e", &want);
        let want2 = E::Tern(
            Box::new(E::Bin(BinOp::Or, Box::new(v("a")), Box::new(v("b")))),
            Box::new(E::Bin(BinOp::And, Box::new(v("c")), Box::new(v("d")))),
            Box::new(E::Bin(BinOp::Or, Box::new(v("e")), Box::new(v("a")))),
        );
        check_shape(rep, "ternary-loosest", "a || b ? c && d : e || a", &want2);
    }

    // ---- random deeper trees: three parenthesisations x white space, same AST, same outcome --------
    let n = ctx.n(60_000, 2_000_000);
    ctx.stage("random-trees", n, true, |_idx, rng, rep| {
        let depth = 1 + rng.below(7);
        let t = random_tree(rng, depth as u32);
        let want = astnorm::strip_parens(&t);
        let minimal = gen::render(&t, Ws::Pretty, Parens::Minimal, None).text;
        let binds = random_env(rng);
        let base_out = mon::run1(&minimal, &binds);
        rep.eval();
        let mut variants: Vec<(&str, String)> = vec![("minimal", minimal.clone())];
        variants.push(("redundant", gen::render(&t, Ws::Pretty, Parens::Redundant, None).text));
        variants.push(("random-parens", gen::render(&t, Ws::Pretty, Parens::Random, Some(rng)).text));
        variants.push(("tight", gen::render(&t, Ws::Tight, Parens::Minimal, None).text));
        variants.push(("random-ws", gen::render(&t, Ws::Random, Parens::Minimal, Some(rng)).text));
        variants.push(("random-both", gen::render(&t, Ws::Random, Parens::Random, Some(rng)).text));
        for (vn, src) in &variants {
            if check_shape(rep, &format!("render-{}", vn), src, &want) && *vn != "minimal" {
                let out = mon::run1(src, &binds);
                rep.eval();
                if out.canon_anyerr() != base_out.canon_anyerr() {
                    rep.viol(
                        &format!("outcome|{}", vn),
                        &format!("`{}` gives {} but `{}` gives {}", minimal, base_out.show(), src, out.show()),
                        json!({"minimal": minimal, "variant": src, "bindings": mon::binds_json(&binds)}),
                    );
                }
            }
            rep.count(&format!("variant/{}", vn));
        }
        // a run of prefix operators means the operators applied one after the other: `!!x` is `!(!(x))`, `---x` is `-(-(-(x)))`
        if has_run(&t) {
            let split = split_runs(&t);
            let ssrc = gen::render(&split, Ws::Pretty, Parens::Minimal, None).text;
            let out = mon::run1(&ssrc, &binds);
            rep.eval();
            rep.count("unary_runs_split");
            if out.canon_anyerr() != base_out.canon_anyerr() {
                rep.viol(
                    "outcome|unary-run-split",
                    &format!("`{}` gives {} but `{}` gives {}", minimal, base_out.show(), ssrc, out.show()),
                    json!({"minimal": minimal, "variant": ssrc, "bindings": mon::binds_json(&binds)}),
                );
            }
        }
        // parentheses that disagree with the structure must give the other tree (the oracle compares something)
        if let Some((src2, want2)) = regroup(&t) {
            rep.count("disagreeing_parens");
            check_shape(rep, "disagreeing-parens", &src2, &want2);
            if want2 == want {
                rep.viol("oracle|regroup-noop", "regrouped tree equals the original", json!({"source": src2}));
            }
        }
        // arithmetic-only trees: the value must be the i128 evaluation of the expected tree
        let ad = 1 + rng.below(5) as u32;
        let at = if rng.chance(1, 3) { arith_chain(rng) } else { random_arith(rng, ad) };
        let asrc = gen::render(&at, Ws::Pretty, Parens::Minimal, None).text;
        let env: Vec<(String, i64)> = ["a", "b", "c", "d", "e"].iter().map(|n| (n.to_string(), rng.range(-9, 9))).collect();
        let abinds: Vec<(String, CelValue)> = env.iter().map(|(k, v)| (k.clone(), (*v).into())).collect();
        let out = mon::run1(&asrc, &abinds);
        rep.eval();
        rep.count("arith_evaluated");
        let want_v = eval_i128(&astnorm::strip_parens(&at), &env);
        let ok = match (&want_v, &out) {
            (Some(v), Out::Val(CelValue::Int(i))) => *v == *i as i128,
            (None, Out::Err(_)) => true,
            _ => false,
        };
        if !ok {
            rep.viol(
                "arith-value",
                &format!("`{}` with {:?}: expected {:?}, got {}", asrc, env, want_v, out.show()),
                json!({"source": asrc, "env": env.iter().map(|(k, v)| format!("{}={}", k, v)).collect::<Vec<_>>()}),
            );
        }
        rep.distinct(&minimal, t.size() >= 4);
        rep.sample(|| json!({"stage":"random-trees","minimal":minimal,"variants":variants.iter().map(|(n, s)| format!("{}: {}", n, mon::clip(s, 80))).collect::<Vec<_>>()}));
    });
}

fn has_run(e: &E) -> bool {
    let mut found = false;
    e.visit(&mut |x| {
        if let E::Un(_, n, _) = x {
            if *n >= 2 {
                found = true;
            }
        }
    });
    found
}

/// every run of n prefix operators rewritten as n nested, parenthesised single operators
fn split_runs(e: &E) -> E {
    e.map_tree(&|x| match x {
        E::Un(c, n, a) if *n >= 2 => {
            let mut cur = (**a).clone();
            for _ in 0..*n {
                cur = E::Un(*c, 1, Box::new(E::Paren(Box::new(cur))));
            }
            Some(cur)
        }
        _ => None,
    })
}

fn random_env(rng: &mut Rng) -> Vec<(String, CelValue)> {
    let mut b: Vec<(String, CelValue)> = Vec::new();
    for n in ["a", "b", "c", "d", "e"] {
        let v: CelValue = match rng.below(9) {
            0 => rng.range(-5, 5).into(),
            5 => CelValue::from_uint(rng.below(4) as u64),
            6 => CelValue::from_string(rng.pick(&["", "s", "0"]).to_string()),
            7 => {
                if rng.chance(1, 2) {
                    CelValue::from_null()
                } else {
                    CelValue::from_int(i64::MIN)
                }
            }
            8 => CelValue::from_list(vec![]),
            1 => (rng.range(-4, 4) as f64 / 2.0).into(),
            2 => rng.chance(1, 2).into(),
            3 => CelValue::from_list(vec![rng.range(0, 3).into(), rng.range(0, 3).into()]),
            _ => rng.range(0, 3).into(),
        };
        b.push((n.to_string(), v));
    }
    b.push(("i".to_string(), 0.into()));
    b
}

fn random_tree(rng: &mut Rng, depth: u32) -> E {
    if depth == 0 || rng.chance(1, 5) {
        // constant primaries carrying a postfix chain, often under a prefix run: index / field / method bind tighter
        // than the prefix operator whatever the compiler knows about the primary
        if rng.chance(1, 6) {
            let n = |rng: &mut Rng| E::Raw(format!("{}", rng.range(1, 9)));
            let chain = match rng.below(5) {
                0 => E::Index(Box::new(E::List(vec![n(rng), n(rng)])), Box::new(E::Raw(format!("{}", rng.below(2))))),
                1 => E::Field(Box::new(E::Map(vec![(E::Raw("\"f\"".to_string()), n(rng))])), "f".into()),
                2 => E::Method(Box::new(E::Raw(format!("{:?}", rng.range(1, 9) as f64))), "max".into(), vec![E::Raw(format!("{:?}", rng.range(1, 9) as f64))]),
                3 => E::Index(Box::new(E::Index(Box::new(E::List(vec![E::List(vec![n(rng), n(rng)])])), Box::new(E::Raw("0".into())))), Box::new(E::Raw("1".into()))),
                _ => E::Method(Box::new(E::List(vec![n(rng), n(rng), n(rng)])), "size".into(), vec![]),
            };
            return if rng.chance(2, 3) { E::Un(*rng.pick(&['-', '!']), 1 + rng.below(2), Box::new(chain)) } else { chain };
        }
        // literal operands as well: the compiler treats constant neighbours specially (folding, merging), and
        // whatever it does must respect the grouping the grammar gives the text
        if rng.chance(1, 3) {
            // (E::Raw with the text the syntax tree normaliser produces for literals)
            return E::Raw(match rng.below(8) {
                // exponent spellings: the sign that may follow `e` must not swallow a following operator
                6 => rng.pick(&["1e5", "2.5e3", "1e-3", "25e+1", "1E2", "0.5e1", "3e0"]).to_string(),
                7 => rng.pick(&["0x1f", "0XA", "7u", "0x10u"]).to_string(),
                0..=2 => format!("{}", rng.range(0, 9)),
                3 => format!("{}u", rng.below(5)),
                4 => format!("{:?}", rng.range(0, 8) as f64 / 2.0),
                _ => format!("{}", rng.chance(1, 2)),
            });
        }
        let v = E::Var(rng.pick(&["a", "b", "c", "d", "e"]).to_string());
        return match rng.below(8) {
            0 => E::Index(Box::new(v), Box::new(E::Var("i".into()))),
            1 => E::Field(Box::new(v), "f".into()),
            2 => E::Method(Box::new(v), "size".into(), vec![]),
            _ => v,
        };
    }
    match rng.below(12) {
        0..=7 => {
            let op = *rng.pick(&ALL_BINOPS);
            E::Bin(op, Box::new(random_tree(rng, depth - 1)), Box::new(random_tree(rng, depth - 1)))
        }
        8 => {
            let c = *rng.pick(&['!', '-']);
            E::Un(c, 1 + rng.below(4), Box::new(random_tree(rng, depth - 1)))
        }
        9 | 10 => E::Tern(Box::new(random_tree(rng, depth - 1)), Box::new(random_tree(rng, depth - 1)), Box::new(random_tree(rng, depth - 1))),
        _ => E::List(vec![random_tree(rng, depth - 1), random_tree(rng, depth - 1)]),
    }
}

/// a flat run of 2-6 operators of one precedence level (left-deep by the grammar) over variables and literals
fn arith_chain(rng: &mut Rng) -> E {
    let additive = rng.chance(1, 2);
    let n = 2 + rng.below(5);
    let operand = |rng: &mut Rng| if rng.chance(1, 2) { E::Raw(format!("{}", rng.range(0, 9))) } else { E::Var(rng.pick(&["a", "b", "c", "d", "e"]).to_string()) };
    let mut e = operand(rng);
    for _ in 0..n {
        let op = if additive { *rng.pick(&[BinOp::Add, BinOp::Sub]) } else { *rng.pick(&[BinOp::Mul, BinOp::Div, BinOp::Mod]) };
        e = E::Bin(op, Box::new(e), Box::new(operand(rng)));
    }
    e
}

fn random_arith(rng: &mut Rng, depth: u32) -> E {
    if depth == 0 || rng.chance(1, 5) {
        if rng.chance(2, 5) {
            return E::Raw(format!("{}", rng.range(0, 9)));
        }
        return E::Var(rng.pick(&["a", "b", "c", "d", "e"]).to_string());
    }
    if rng.chance(1, 8) {
        return E::Un('-', 1 + rng.below(2), Box::new(random_arith(rng, depth - 1)));
    }
    let op = *rng.pick(&[BinOp::Add, BinOp::Sub, BinOp::Mul, BinOp::Div, BinOp::Mod]);
    E::Bin(op, Box::new(random_arith(rng, depth - 1)), Box::new(random_arith(rng, depth - 1)))
}

/// If the root is `(x op1 y) op2 z` or `x op1 (y op2 z)`, produce the text with the parentheses
/// moved to the other grouping together with the tree that text denotes.
fn regroup(t: &E) -> Option<(String, E)> {
    if let E::Bin(op2, l, z) = t {
        if let E::Bin(op1, x, y) = l.as_ref() {
            let other = E::Bin(*op1, x.clone(), Box::new(E::Paren(Box::new(E::Bin(*op2, y.clone(), z.clone())))));
            let src = gen::render(&other, Ws::Pretty, Parens::Minimal, None).text;
            return Some((src, astnorm::strip_parens(&other)));
        }
    }
    None
}
