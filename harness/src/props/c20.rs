//! C20 - CEL-to-SQL translation preserves structure and cannot be escaped by literals.
//! Oracle: an independent SQL tokenizer (PostgreSQL lexical rules: '' escapes, -- and /* */
//! comments) and precedence parser for the emitted dialect; the parsed SQL tree must equal the
//! source tree produced by the generator.

use rscel::{CelValue, Program};
use rscel_to_sql::IntoSqlBuilder;
use serde_json::json;

use crate::gen::{self, BinOp, Parens, Ws, E};
use crate::mon::{self, Ctx, Rep};
use crate::rng::Rng;

// ---- SQL lexer ------------------------------------------------------------------------------------

#[derive(Clone, Debug, PartialEq)]
enum Tok {
    Str(String),
    Num(String),
    Ident(String),
    Op(String),
    Comment(String),
}

fn lex(sql: &str) -> Result<Vec<Tok>, String> {
    let cs: Vec<char> = sql.chars().collect();
    let mut i = 0;
    let mut out = Vec::new();
    while i < cs.len() {
        let c = cs[i];
        if c.is_whitespace() {
            i += 1;
        } else if c == '-' && cs.get(i + 1) == Some(&'-') {
            // line comment
            let start = i;
            while i < cs.len() && cs[i] != '\n' {
                i += 1;
            }
            out.push(Tok::Comment(cs[start..i].iter().collect()));
        } else if c == '/' && cs.get(i + 1) == Some(&'*') {
            // block comment (nests in PostgreSQL)
            let start = i;
            let mut depth = 0;
            loop {
                if i + 1 < cs.len() && cs[i] == '/' && cs[i + 1] == '*' {
                    depth += 1;
                    i += 2;
                } else if i + 1 < cs.len() && cs[i] == '*' && cs[i + 1] == '/' {
                    depth -= 1;
                    i += 2;
                    if depth == 0 {
                        break;
                    }
                } else if i >= cs.len() {
                    break;
                } else {
                    i += 1;
                }
            }
            out.push(Tok::Comment(cs[start..i.min(cs.len())].iter().collect()));
        } else if c == '\'' {
            // string literal: '' is the only escape (standard_conforming_strings)
            i += 1;
            let mut s = String::new();
            loop {
                if i >= cs.len() {
                    return Err("unterminated string literal".into());
                }
                if cs[i] == '\'' {
                    if cs.get(i + 1) == Some(&'\'') {
                        s.push('\'');
                        i += 2;
                    } else {
                        i += 1;
                        break;
                    }
                } else {
                    s.push(cs[i]);
                    i += 1;
                }
            }
            out.push(Tok::Str(s));
        } else if c.is_ascii_digit() || (c == '.' && cs.get(i + 1).map(|d| d.is_ascii_digit()).unwrap_or(false)) {
            let start = i;
            while i < cs.len() && (cs[i].is_ascii_digit() || cs[i] == '.') {
                i += 1;
            }
            if i < cs.len() && (cs[i] == 'e' || cs[i] == 'E') {
                let save = i;
                i += 1;
                if i < cs.len() && (cs[i] == '+' || cs[i] == '-') {
                    i += 1;
                }
                if i < cs.len() && cs[i].is_ascii_digit() {
                    while i < cs.len() && cs[i].is_ascii_digit() {
                        i += 1;
                    }
                } else {
                    i = save;
                }
            }
            out.push(Tok::Num(cs[start..i].iter().collect()));
        } else if c.is_alphabetic() || c == '_' {
            let start = i;
            while i < cs.len() && (cs[i].is_alphanumeric() || cs[i] == '_' || cs[i] == '$') {
                i += 1;
            }
            out.push(Tok::Ident(cs[start..i].iter().collect()));
        } else {
            let three: String = cs[i..(i + 3).min(cs.len())].iter().collect();
            let two: String = cs[i..(i + 2).min(cs.len())].iter().collect();
            if three == "->>" {
                out.push(Tok::Op(three));
                i += 3;
            } else if ["->", "::", "<=", ">=", "<>"].contains(&two.as_str()) {
                out.push(Tok::Op(two));
                i += 2;
            } else if "()[],+-*/%!<>=".contains(c) {
                out.push(Tok::Op(c.to_string()));
                i += 1;
            } else {
                return Err(format!("unexpected character {:?} outside any literal", c));
            }
        }
    }
    Ok(out)
}

// ---- SQL parser -> harness tree ----------------------------------------------------------------------

struct P {
    t: Vec<Tok>,
    i: usize,
}

type PR = Result<E, String>;

impl P {
    fn peek(&self) -> Option<&Tok> {
        self.t.get(self.i)
    }
    fn is_op(&self, s: &str) -> bool {
        matches!(self.peek(), Some(Tok::Op(o)) if o == s)
    }
    fn is_kw(&self, s: &str) -> bool {
        matches!(self.peek(), Some(Tok::Ident(o)) if o == s)
    }
    fn eat_op(&mut self, s: &str) -> Result<(), String> {
        if self.is_op(s) {
            self.i += 1;
            Ok(())
        } else {
            Err(format!("expected `{}` at token {} ({:?})", s, self.i, self.peek()))
        }
    }
    fn eat_kw(&mut self, s: &str) -> Result<(), String> {
        if self.is_kw(s) {
            self.i += 1;
            Ok(())
        } else {
            Err(format!("expected `{}` at token {} ({:?})", s, self.i, self.peek()))
        }
    }

    fn expr(&mut self) -> PR {
        let mut l = self.and()?;
        while self.is_kw("OR") {
            self.i += 1;
            let r = self.and()?;
            l = gen::bin(BinOp::Or, l, r);
        }
        Ok(l)
    }
    fn and(&mut self) -> PR {
        let mut l = self.cmp()?;
        while self.is_kw("AND") {
            self.i += 1;
            let r = self.cmp()?;
            l = gen::bin(BinOp::And, l, r);
        }
        Ok(l)
    }
    fn cmp(&mut self) -> PR {
        let mut l = self.other()?;
        loop {
            let op = match self.peek() {
                Some(Tok::Op(o)) => match o.as_str() {
                    "=" => BinOp::Eq,
                    "<>" => BinOp::Ne,
                    "<" => BinOp::Lt,
                    "<=" => BinOp::Le,
                    ">" => BinOp::Gt,
                    ">=" => BinOp::Ge,
                    _ => break,
                },
                Some(Tok::Ident(k)) if k == "in" => BinOp::In,
                _ => break,
            };
            self.i += 1;
            let r = self.other()?;
            l = gen::bin(op, l, r);
        }
        Ok(l)
    }
    /// "any other operator": the JSON arrows
    fn other(&mut self) -> PR {
        let mut l = self.add()?;
        while self.is_op("->") || self.is_op("->>") {
            self.i += 1;
            let r = self.add()?;
            l = match r {
                E::Raw(s) if s.starts_with("str:") => E::Field(Box::new(l), s[4..].to_string()),
                // (x)->'f'(args): the dialect's spelling of a method call
                E::Method(recv, name, args) if matches!(&*recv, E::Raw(s) if s.starts_with("str:")) && name == "<call>" => {
                    if let E::Raw(s) = *recv {
                        E::Method(Box::new(l), s[4..].to_string(), args)
                    } else {
                        unreachable!()
                    }
                }
                other => return Err(format!("right side of a JSON arrow is not a field name: {:?}", other)),
            };
        }
        Ok(l)
    }
    fn add(&mut self) -> PR {
        let mut l = self.mul()?;
        loop {
            let op = if self.is_op("+") { BinOp::Add } else if self.is_op("-") { BinOp::Sub } else { break };
            self.i += 1;
            let r = self.mul()?;
            l = gen::bin(op, l, r);
        }
        Ok(l)
    }
    fn mul(&mut self) -> PR {
        let mut l = self.unary()?;
        loop {
            let op = if self.is_op("*") { BinOp::Mul } else if self.is_op("/") { BinOp::Div } else if self.is_op("%") { BinOp::Mod } else { break };
            self.i += 1;
            let r = self.unary()?;
            l = gen::bin(op, l, r);
        }
        Ok(l)
    }
    fn unary(&mut self) -> PR {
        if self.is_op("!") || self.is_op("-") {
            let c = if self.is_op("!") { '!' } else { '-' };
            self.i += 1;
            let inner = self.unary()?;
            return Ok(match inner {
                E::Un(c2, n, x) if c2 == c => E::Un(c, n + 1, x),
                other => E::Un(c, 1, Box::new(other)),
            });
        }
        self.postfix()
    }
    fn args(&mut self, close: &str) -> Result<Vec<E>, String> {
        let mut v = Vec::new();
        if self.is_op(close) {
            self.i += 1;
            return Ok(v);
        }
        loop {
            v.push(self.expr()?);
            if self.is_op(",") {
                self.i += 1;
            } else {
                self.eat_op(close)?;
                return Ok(v);
            }
        }
    }
    fn postfix(&mut self) -> PR {
        let mut e = self.primary()?;
        loop {
            if self.is_op("::") {
                self.i += 1;
                let mut ty = Vec::new();
                while let Some(Tok::Ident(w)) = self.peek() {
                    if ["when", "then", "else", "end", "AND", "OR", "in"].contains(&w.as_str()) {
                        break;
                    }
                    ty.push(w.clone());
                    self.i += 1;
                    if ty.len() == 1 && ty[0] != "double" {
                        break;
                    }
                    if ty.len() == 2 {
                        break;
                    }
                }
                let ctor = match ty.join(" ").as_str() {
                    "integer" => "int",
                    "bigint" => "uint",
                    "double precision" => "double",
                    "text" => "string",
                    "boolean" => "bool",
                    "bytea" => "bytes",
                    "timestamp" => "timestamp",
                    "interval" => "duration",
                    "bool" => "<boolcast>",
                    "json" => "<json>",
                    other => return Err(format!("unknown cast type `{}`", other)),
                };
                e = E::Call(ctor.to_string(), vec![e]);
            } else if self.is_op("[") {
                self.i += 1;
                let idx = self.expr()?;
                self.eat_op("]")?;
                e = E::Index(Box::new(e), Box::new(idx));
            } else if self.is_op("(") {
                self.i += 1;
                let a = self.args(")")?;
                e = match e {
                    E::Var(name) => E::Call(name, a),
                    E::Field(recv, name) => E::Method(recv, name, a),
                    other => E::Method(Box::new(other), "<call>".to_string(), a),
                };
            } else {
                return Ok(e);
            }
        }
    }
    fn primary(&mut self) -> PR {
        match self.peek().cloned() {
            Some(Tok::Op(o)) if o == "(" => {
                self.i += 1;
                let e = self.expr()?;
                self.eat_op(")")?;
                Ok(E::Paren(Box::new(e)))
            }
            Some(Tok::Num(n)) => {
                self.i += 1;
                Ok(E::Raw(format!("num:{}", n)))
            }
            Some(Tok::Str(s)) => {
                self.i += 1;
                Ok(E::Raw(format!("str:{}", s)))
            }
            Some(Tok::Ident(w)) => {
                self.i += 1;
                match w.as_str() {
                    "NULL" => Ok(E::Raw("null".into())),
                    "TRUE" => Ok(E::Raw("true".into())),
                    "FALSE" => Ok(E::Raw("false".into())),
                    "ARRAY" => {
                        self.eat_op("[")?;
                        Ok(E::List(self.args("]")?))
                    }
                    "json_build_object" => {
                        self.eat_op("(")?;
                        let a = self.args(")")?;
                        if a.len() % 2 != 0 {
                            return Err("json_build_object with an odd number of arguments".into());
                        }
                        let mut pairs = Vec::new();
                        let mut it = a.into_iter();
                        while let (Some(k), Some(v)) = (it.next(), it.next()) {
                            pairs.push((k, v));
                        }
                        Ok(E::Map(pairs))
                    }
                    "case" => {
                        let c = self.expr()?;
                        self.eat_kw("when")?;
                        self.eat_kw("true")?;
                        self.eat_kw("then")?;
                        let a = self.expr()?;
                        self.eat_kw("else")?;
                        let b = self.expr()?;
                        self.eat_kw("end")?;
                        // the condition is written as (C)::bool
                        let c = match c {
                            E::Call(n, mut v) if n == "<boolcast>" && v.len() == 1 => v.remove(0),
                            other => return Err(format!("case condition is not a ::bool cast: {:?}", other)),
                        };
                        Ok(E::Tern(Box::new(c), Box::new(a), Box::new(b)))
                    }
                    _ => Ok(E::Var(w)),
                }
            }
            other => Err(format!("unexpected token {:?} at {}", other, self.i)),
        }
    }
}

fn parse_sql(sql: &str) -> Result<E, String> {
    let toks = lex(sql)?;
    if let Some(Tok::Comment(c)) = toks.iter().find(|t| matches!(t, Tok::Comment(_))) {
        return Err(format!("COMMENT: the SQL text contains a comment `{}`", mon::clip(c, 60)));
    }
    let mut p = P { t: toks, i: 0 };
    let e = p.expr()?;
    if p.i != p.t.len() {
        return Err(format!("trailing tokens after the expression: {:?}", &p.t[p.i..p.t.len().min(p.i + 4)]));
    }
    Ok(e)
}

// ---- normal forms -------------------------------------------------------------------------------------------

fn num_key(text: &str) -> String {
    // integers exactly, everything else as the nearest double
    if text.bytes().all(|b| b.is_ascii_digit()) {
        let t = text.trim_start_matches('0');
        return format!("num:{}", if t.is_empty() { "0" } else { t });
    }
    match text.parse::<f64>() {
        Ok(f) if f.fract() == 0.0 && f.abs() < 1e18 => format!("num:{}", f as i128),
        Ok(f) => format!("num:f{:016x}", f.to_bits()),
        Err(_) => format!("num:?{}", text),
    }
}

fn norm(e: &E) -> E {
    e.map(&mut |n| match n {
        E::Paren(inner) => *inner,
        E::Raw(s) if s.starts_with("num:") => E::Raw(num_key(&s[4..])),
        E::Lit(v) => E::Raw(match &v {
            CelValue::Int(i) => num_key(&format!("{}", i)),
            CelValue::UInt(u) => num_key(&format!("{}", u)),
            CelValue::Float(f) => num_key(&format!("{}", f)),
            CelValue::String(s) => format!("str:{}", s),
            CelValue::Bool(b) => format!("{}", b),
            CelValue::Null => "null".into(),
            other => format!("?{:?}", other),
        }),
        // type constructors with one argument are casts; float == double; T() == T(null)
        E::Call(name, args) if ["int", "uint", "float", "double", "string", "bool", "bytes", "timestamp", "duration"].contains(&name.as_str()) && args.len() <= 1 => {
            let name = if name == "float" { "double".to_string() } else { name };
            let args = if args.is_empty() { vec![E::Raw("null".into())] } else { args };
            E::Call(name, args)
        }
        // '{}'::json is the empty object
        E::Call(name, args) if name == "<json>" && args.len() == 1 && args[0] == E::Raw("str:{}".into()) => E::Map(vec![]),
        other => other,
    })
}

fn to_sql(src: &str) -> Result<Result<String, String>, (String, String)> {
    mon::catch(|| {
        let p = Program::from_source(src).map_err(|e| format!("cel: {}", e))?;
        let ast = p.ast().ok_or("no ast".to_string())?;
        let b = ast.into_sql_builder().map_err(|e| format!("unsupported: {}", e))?;
        b.to_sql().map_err(|e| format!("unsupported: {}", e))
    })
}

// ---- generator of the translatable subset --------------------------------------------------------------------

const IDENTS: [&str; 6] = ["a", "b", "c", "user", "x1", "cfg"];
const FUNCS: [&str; 5] = ["f", "g", "max", "someFn", "lower"];
const FIELDS: [&str; 5] = ["name", "id", "profile", "f", "size"];

fn hostile_string(rng: &mut Rng) -> String {
    const PAYLOADS: &[&str] = &["'; DROP TABLE x; --", "\\'", "*/", "/*", "--", "''", "'", "a'b", "\\", "\n", "x\ny", "';", "' OR '1'='1", "$$", "\u{0}", "é", "\""];
    const ALPHA: &[&str] = &["'", "\"", "\\", "-", ";", "/", "*", "\n", "a", " ", "(", ")", ",", "0", "é"];
    match rng.below(4) {
        0 => rng.pick(PAYLOADS).to_string(),
        1 => {
            let n = rng.below(8);
            (0..n).map(|_| *rng.pick(ALPHA)).collect()
        }
        2 => format!("{}{}", rng.pick(&["abc", "", "x"]), rng.pick(PAYLOADS)),
        _ => rng.pick(&["plain", "hello world", "", "k"]).to_string(),
    }
}

fn gen_sql_expr(rng: &mut Rng, depth: u32) -> E {
    if depth == 0 || rng.chance(1, 4) {
        return match rng.below(9) {
            0 | 1 => E::Var(rng.pick(&IDENTS).to_string()),
            2 => gen::lit(rng.below(1000) as i64),
            3 => gen::lit(hostile_string(rng).as_str()),
            4 => gen::lit(hostile_string(rng).as_str()),
            5 => gen::lit(rng.chance(1, 2)),
            6 => gen::lit(CelValue::from_null()),
            7 => gen::lit(*rng.pick(&[0.5, 3.14, 1e300, 2.0, 0.0])),
            _ => gen::lit(rng.below(100) as u64),
        };
    }
    let d = depth - 1;
    match rng.below(16) {
        0..=4 => {
            let op = *rng.pick(&gen::ALL_BINOPS);
            gen::bin(op, gen_sql_expr(rng, d), gen_sql_expr(rng, d))
        }
        5 => E::Tern(Box::new(gen_sql_expr(rng, d)), Box::new(gen_sql_expr(rng, d)), Box::new(gen_sql_expr(rng, d))),
        6 => {
            // unary runs of length 1 (longer '-' runs are the recorded known finding, generated in their own stage)
            let c = *rng.pick(&['!', '-']);
            E::Un(c, 1, Box::new(gen_sql_expr(rng, d)))
        }
        7 => {
            let n = rng.below(5);
            gen::call(*rng.pick(&FUNCS), (0..n).map(|_| gen_sql_expr(rng, d)).collect())
        }
        8 => {
            // call inside a member chain, arguments in source order
            let n = rng.below(4);
            gen::method(gen_sql_expr(rng, d), *rng.pick(&FIELDS), (0..n).map(|_| gen_sql_expr(rng, d)).collect())
        }
        9 => E::Field(Box::new(gen_sql_expr(rng, d)), rng.pick(&FIELDS).to_string()),
        10 => E::Index(Box::new(gen_sql_expr(rng, d)), Box::new(gen_sql_expr(rng, d))),
        11 => {
            let n = rng.below(4);
            E::List((0..n).map(|_| gen_sql_expr(rng, d)).collect())
        }
        12 => {
            let n = rng.below(3);
            E::Map((0..n).map(|_| (gen::lit(hostile_string(rng).as_str()), gen_sql_expr(rng, d))).collect())
        }
        13 | 14 => {
            // one argument is a cast, none is a typed NULL, more are an ordinary call: every argument must survive
            let t = *rng.pick(&["int", "uint", "double", "float", "string", "bool", "timestamp", "duration"]);
            let n = match rng.below(8) {
                0 => 0,
                1 => 2,
                2 => 3,
                _ => 1,
            };
            gen::call(t, (0..n).map(|_| gen_sql_expr(rng, d)).collect())
        }
        _ => E::Paren(Box::new(gen_sql_expr(rng, d))),
    }
}

fn has_long_minus_run(e: &E) -> bool {
    let mut found = matches!(e, E::Un('-', n, _) if *n >= 2);
    // -(-x) written without parentheses cannot occur (the renderer parenthesises), but a unary
    // minus applied to a negative literal renders as -(-5): fine
    e.for_children(&mut |c| found |= has_long_minus_run(c));
    found
}

fn check_translation(rep: &mut Rep, t: &E, stage: &str) {
    let src = gen::render(t, Ws::Pretty, Parens::Minimal, None).text;
    rep.eval();
    let sql = match to_sql(&src) {
        Err((m, l)) => {
            rep.viol("to_sql|panic", &format!("to_sql(`{}`) panicked: {} at {}", mon::clip(&src, 200), m, l), json!({"source": src}));
            return;
        }
        Ok(Err(e)) => {
            rep.viol(
                "to_sql|translatable-rejected",
                &format!("`{}` is in the translatable subset but was not translated: {}", mon::clip(&src, 200), e),
                json!({"source": src}),
            );
            return;
        }
        Ok(Ok(s)) => s,
    };
    rep.count("translations");
    let want = norm(t);
    match parse_sql(&sql) {
        Err(e) => {
            let class = if e.starts_with("COMMENT") {
                if has_long_minus_run(t) { "unary-run|sql-comment" } else { "literal|opens-comment" }
            } else if e.contains("unterminated") {
                "literal|unterminated-string"
            } else {
                "unparsable"
            };
            rep.viol(
                &format!("sql|{}", class),
                &format!("`{}` translates to `{}`, which does not read back as one expression: {}", mon::clip(&src, 300), mon::clip(&sql, 300), e),
                json!({"source": src, "sql": sql}),
            );
        }
        Ok(got) => {
            let got = norm(&got);
            if got != want {
                let class = classify_diff(&want, &got);
                rep.viol(
                    &format!("sql|structure|{}", class),
                    &format!("`{}` translates to `{}`; read back as {} but the source is {}", mon::clip(&src, 300), mon::clip(&sql, 300),
                        mon::clip(&format!("{:?}", got), 400), mon::clip(&format!("{:?}", want), 400)),
                    json!({"source": src, "sql": sql}),
                );
            }
        }
    }
    rep.distinct(&src, t.size() >= 2 || src.contains('\''));
    rep.sample(|| json!({"stage": stage, "source": mon::clip(&src, 160), "sql": mon::clip(&sql, 200)}));
}

/// the first place where the two trees differ, as a class name
fn classify_diff(want: &E, got: &E) -> String {
    fn kind(e: &E) -> &'static str {
        match e {
            E::Lit(_) | E::Raw(_) => "literal",
            E::Var(_) => "ident",
            E::Un(..) => "unary",
            E::Bin(..) => "binary",
            E::Tern(..) => "ternary",
            E::List(_) => "list",
            E::Map(_) => "map",
            E::Index(..) => "index",
            E::Field(..) => "field",
            E::Call(n, _) if ["int", "uint", "double", "string", "bool", "bytes", "timestamp", "duration"].contains(&n.as_str()) => "cast",
            E::Call(..) => "call",
            E::Method(..) => "method",
            _ => "other",
        }
    }
    match (want, got) {
        (E::Raw(a), E::Raw(b)) if a != b => {
            if a.starts_with("str:") { "string-content".into() } else { "literal-value".into() }
        }
        (E::Call(a, x), E::Call(b, y)) if a == b && x.len() == y.len() => {
            for (p, q) in x.iter().zip(y.iter()) {
                if p != q {
                    if x.iter().rev().eq(y.iter()) && x.len() > 1 {
                        return "call-arguments-reversed".into();
                    }
                    return classify_diff(p, q);
                }
            }
            "call".into()
        }
        (E::Method(r1, a, x), E::Method(r2, b, y)) if a == b && x.len() == y.len() => {
            if r1 != r2 {
                return classify_diff(r1, r2);
            }
            if x.len() > 1 && x.iter().rev().eq(y.iter()) {
                return "method-arguments-reversed".into();
            }
            for (p, q) in x.iter().zip(y.iter()) {
                if p != q {
                    return classify_diff(p, q);
                }
            }
            "method".into()
        }
        (E::Bin(o1, a1, b1), E::Bin(o2, a2, b2)) if o1 == o2 => {
            if a1 != a2 { classify_diff(a1, a2) } else { classify_diff(b1, b2) }
        }
        (E::Tern(a1, b1, c1), E::Tern(a2, b2, c2)) => {
            if a1 != a2 { classify_diff(a1, a2) } else if b1 != b2 { classify_diff(b1, b2) } else { classify_diff(c1, c2) }
        }
        (E::Un(c1, n1, a1), E::Un(c2, n2, a2)) if c1 == c2 && n1 == n2 => classify_diff(a1, a2),
        (E::Index(a1, b1), E::Index(a2, b2)) => {
            if a1 != a2 { classify_diff(a1, a2) } else { classify_diff(b1, b2) }
        }
        (E::Field(a1, f1), E::Field(a2, f2)) if f1 == f2 => classify_diff(a1, a2),
        (E::List(x), E::List(y)) if x.len() == y.len() => {
            for (p, q) in x.iter().zip(y.iter()) {
                if p != q {
                    return classify_diff(p, q);
                }
            }
            "list".into()
        }
        (E::Map(x), E::Map(y)) if x.len() == y.len() => {
            for ((k1, v1), (k2, v2)) in x.iter().zip(y.iter()) {
                if k1 != k2 {
                    return classify_diff(k1, k2);
                }
                if v1 != v2 {
                    return classify_diff(v1, v2);
                }
            }
            "map".into()
        }
        (w, g) => format!("{}-read-as-{}", kind(w), kind(g)),
    }
}

pub fn run(ctx: &mut Ctx) {
    // ---- string literals in every position ------------------------------------------------------------
    let ns = ctx.n(40_000, 400_000);
    ctx.stage("string-literals", ns, true, |_idx, rng, rep| {
        let s = hostile_string(rng);
        let l = gen::lit(s.as_str());
        let t = match rng.below(8) {
            0 => l,
            1 => gen::bin(BinOp::Eq, E::Var("a".into()), l),
            2 => gen::call("f", vec![E::Var("a".into()), l]),
            3 => E::List(vec![l, gen::lit(1)]),
            4 => E::Map(vec![(l, gen::lit(hostile_string(rng).as_str()))]),
            5 => gen::call("string", vec![l]),
            6 => E::Index(Box::new(E::Var("a".into())), Box::new(l)),
            _ => E::Tern(Box::new(E::Var("c".into())), Box::new(l), Box::new(gen::lit(hostile_string(rng).as_str()))),
        };
        check_translation(rep, &t, "string-literals");
        rep.count("string_literal_cases");
    });

    // ---- generated expressions over the translatable subset -----------------------------------------------
    let n = ctx.n(120_000, 2_000_000);
    ctx.stage("generated", n, true, |_idx, rng, rep| {
        let d = 1 + rng.below(4) as u32;
        let t = gen_sql_expr(rng, d);
        check_translation(rep, &t, "generated");
    });

    // ---- an untranslatable construct planted anywhere in a translatable expression: the whole translation fails ---------
    let npl = ctx.n(30_000, 300_000);
    ctx.stage("unsupported-planted", npl, true, |_idx, rng, rep| {
        let d = 1 + rng.below(4) as u32;
        let t = gen_sql_expr(rng, d);
        // count the leaves, pick one, replace it
        let mut leaves = 0usize;
        t.visit(&mut |x| {
            if matches!(x, E::Var(_) | E::Lit(_)) {
                leaves += 1;
            }
        });
        if leaves == 0 {
            return;
        }
        let target = rng.below(leaves);
        let plant = *rng.pick(&["b'abc'", "b''", "f'{a}'", "f'x{a}y'", "f'{a}{b}'", "(match a { case 1: 2, case _: 3 })", "(match a { case _: b })"]);
        let seen = std::cell::Cell::new(0usize);
        let planted = t.map_tree(&|x| {
            if matches!(x, E::Var(_) | E::Lit(_)) {
                let k = seen.get();
                seen.set(k + 1);
                if k == target {
                    return Some(E::Raw(plant.to_string()));
                }
            }
            None
        });
        let src = gen::render(&planted, Ws::Pretty, Parens::Minimal, None).text;
        rep.eval();
        rep.count("unsupported_planted_cases");
        match to_sql(&src) {
            Err((m, l)) => rep.viol("to_sql|panic", &format!("to_sql(`{}`) panicked: {} at {}", mon::clip(&src, 200), m, l), json!({"source": src})),
            Ok(Ok(sql)) => rep.viol(
                "to_sql|unsupported-translated",
                &format!("`{}` contains `{}`, which has no translation, but produced `{}`", mon::clip(&src, 200), plant, mon::clip(&sql, 200)),
                json!({"source": src, "sql": sql, "planted": plant}),
            ),
            Ok(Err(e)) => {
                if !e.starts_with("unsupported") {
                    rep.viol("to_sql|wrong-error", &format!("`{}`: {}", mon::clip(&src, 200), e), json!({"source": src}));
                }
            }
        }
        rep.distinct(&src, true);
    });

    // ---- runs of unary operators -------------------------------------------------------------------------------
    ctx.stage("unary-runs", 24, false, |idx, _rng, rep| {
        let c = if idx % 2 == 0 { '!' } else { '-' };
        let n = 1 + (idx as usize / 2) % 4;
        let operand = match idx / 8 {
            0 => E::Var("a".into()),
            1 => gen::lit(5),
            _ => E::Field(Box::new(E::Var("a".into())), "b".into()),
        };
        check_translation(rep, &E::Un(c, n, Box::new(operand)), "unary-runs");
    });

    // ---- constructs without a translation: an Unsupported error, never a panic ------------------------------------
    let unsupported = [
        "match a { case 1: 2, case _: 3 }", "f'{a}'", "f'x{a}y'", "b'abc'", "a + b'x'", "[match a { case _: 1 }]", "{'k': f'{a}'}", "f(b'x')",
        "a ? f'{b}' : 1", "a.b(f'{c}')", "-b'x'",
    ];
    ctx.stage("unsupported", unsupported.len() as u64, false, |idx, _rng, rep| {
        let src = unsupported[idx as usize];
        rep.eval();
        rep.count("unsupported_cases");
        match to_sql(src) {
            Err((m, l)) => rep.viol("to_sql|panic", &format!("to_sql(`{}`) panicked: {} at {}", src, m, l), json!({"source": src})),
            Ok(Ok(sql)) => rep.viol(
                "to_sql|unsupported-translated",
                &format!("`{}` has no translation but produced `{}`", src, sql),
                json!({"source": src, "sql": sql}),
            ),
            Ok(Err(e)) => {
                if !e.starts_with("unsupported") {
                    rep.viol("to_sql|wrong-error", &format!("`{}`: {}", src, e), json!({"source": src}));
                }
            }
        }
        rep.distinct(src, true);
    });

    // ---- arbitrary sources must never panic the translator ------------------------------------------------------------
    let nc = ctx.n(20_000, 200_000);
    ctx.stage("never-panics", nc, true, |_idx, rng, rep| {
        let vars = gen::random_vars(rng, 3);
        let cfg = gen::GenCfg::basic(vars);
        let ty = gen::random_ty(rng, 1);
        let d = 1 + rng.below(4) as u32;
        let e = gen::Gen::new(rng, cfg).expr(&ty, d);
        let src = gen::render(&e, Ws::Pretty, Parens::Minimal, None).text;
        rep.eval();
        if let Err((m, l)) = to_sql(&src) {
            rep.viol("to_sql|panic", &format!("to_sql(`{}`) panicked: {} at {}", mon::clip(&src, 200), m, l), json!({"source": src}));
        }
        rep.distinct(&src, true);
    });
}
