//! C01 - compile and evaluate are total: a value or an error, never a panic / abort.
//! Stages: built-in sweep (variable and literal form), corpus truncation, token mutation,
//! random UTF-8, (generator-based stages are added in c01_gen).

use rscel::CelValue;
use serde_json::json;

use crate::corpus::{CORPUS, NAMES_FUNCS, NAMES_MACROS, NAMES_TYPES};
use crate::gen::{self, Gen, GenCfg, Parens, Ws};
use crate::hookmon;
use crate::mon::{self, binds_json, canon, panic_sig, Ctx, Out, Rep};
use crate::rng::Rng;
use crate::vals;

fn all_names() -> Vec<&'static str> {
    let mut v: Vec<&'static str> = Vec::new();
    v.extend(NAMES_FUNCS);
    v.extend(NAMES_TYPES);
    v.extend(NAMES_MACROS);
    v
}

pub fn check_total(rep: &mut Rep, what: &str, src: &str, binds: &[(String, CelValue)], out: &Out) {
    rep.eval();
    rep.count(&format!("outcome/{}", out.class().split(':').next().unwrap()));
    if let Out::Panic(m, l) = out {
        rep.viol(
            &format!("panic|{}", panic_sig(m, l)),
            &format!("{}: panicked: {} at {}", what, m, l),
            json!({"source": src, "bindings": binds_json(binds)}),
        );
    }
}

/// source, compile + exec, check; returns the outcome
pub fn total(rep: &mut Rep, what: &str, src: &str, binds: &[(String, CelValue)]) -> Out {
    let out = mon::run1(src, binds);
    check_total(rep, what, src, binds, &out);
    out
}

pub fn run(ctx: &mut Ctx) {
    let names = all_names();
    let full = vals::full_pool();
    let small = vals::small_pool();
    let nn = names.len() as u64;

    // ---- built-in sweep, variable form: program compiled once, executed over the pool -----
    // shapes: 0 f()  1 f(a)  2 r.f()  3 f(a,b)  4 r.f(a)  5 r.f(a,b)
    let shapes: [&str; 6] = ["{f}()", "{f}(a)", "r.{f}()", "{f}(a, b)", "r.{f}(a)", "r.{f}(a, b)"];
    let quick = ctx.quick();
    ctx.stage("sweep-var", nn * 6, false, |idx, rng, rep| {
        let name = names[(idx / 6) as usize];
        let shape = (idx % 6) as usize;
        let src = shapes[shape].replace("{f}", name);
        let prog = match mon::compile(&src) {
            Ok(p) => p,
            Err(o) => {
                check_total(rep, "sweep compile", &src, &[], &o);
                return;
            }
        };
        let mut ctxc = rscel::CelContext::new();
        ctxc.add_program("main", prog);
        let mut run = |rep: &mut Rep, binds: Vec<(String, CelValue)>| {
            let out = mon::run_in(&mut ctxc, &binds);
            check_total(rep, "sweep", &src, &binds, &out);
            rep.count(&format!("sweep_shape/{}", shape));
        };
        match shape {
            0 => run(rep, vec![]),
            1 => {
                for a in &full {
                    run(rep, vec![("a".into(), a.clone())]);
                }
            }
            2 => {
                for r in &full {
                    run(rep, vec![("r".into(), r.clone())]);
                }
            }
            3 => {
                for a in &small {
                    for b in &small {
                        run(rep, vec![("a".into(), a.clone()), ("b".into(), b.clone())]);
                    }
                }
            }
            4 => {
                for r in &small {
                    for a in &small {
                        run(rep, vec![("r".into(), r.clone()), ("a".into(), a.clone())]);
                    }
                }
            }
            _ => {
                // arity 3 in total: exhaustive over the small pool in thorough, sampled in quick
                if quick {
                    for _ in 0..3000 {
                        let r = rng.pick(&small).clone();
                        let a = rng.pick(&small).clone();
                        let b = rng.pick(&small).clone();
                        run(rep, vec![("r".into(), r), ("a".into(), a), ("b".into(), b)]);
                    }
                } else {
                    for r in &small {
                        for a in &small {
                            for b in &small {
                                run(
                                    rep,
                                    vec![
                                        ("r".into(), r.clone()),
                                        ("a".into(), a.clone()),
                                        ("b".into(), b.clone()),
                                    ],
                                );
                            }
                        }
                    }
                }
            }
        }
        rep.distinct(&src, true);
        rep.sample(|| json!({"stage":"sweep-var","source":src}));
    });

    // ---- two integer arguments: every pair of the integer boundary pool (which holds the limits of the 64-bit range
    // counted in seconds, milli-, micro- and nanoseconds as well), for every built-in and constructor ---------------
    let ints: Vec<CelValue> = vals::int_pool().into_iter().map(CelValue::from_int).collect();
    ctx.stage("sweep-int-pairs", nn * 2, false, |idx, _rng, rep| {
        let name = names[(idx / 2) as usize];
        let src = if idx % 2 == 0 { format!("{}(a, b)", name) } else { format!("a.{}(b)", name) };
        let prog = match mon::compile(&src) {
            Ok(p) => p,
            Err(o) => {
                check_total(rep, "sweep compile", &src, &[], &o);
                return;
            }
        };
        let mut ctxc = rscel::CelContext::new();
        ctxc.add_program("main", prog);
        for a in &ints {
            for b in &ints {
                let binds = vec![("a".to_string(), a.clone()), ("b".to_string(), b.clone())];
                let out = mon::run_in(&mut ctxc, &binds);
                check_total(rep, "sweep-int-pairs", &src, &binds, &out);
            }
        }
        rep.count("sweep_int_pair_programs");
        rep.distinct(&src, true);
    });

    // ---- every known name as a match pattern: type names with and without a pattern form, functions, macros, keywords ----
    let mut pat_names: Vec<&'static str> = names.clone();
    pat_names.extend(["dyn", "type", "null_type", "null", "true", "false", "_", "list", "map", "object", "float", "double", "in", "match", "case"]);
    let npat = pat_names.len() as u64;
    ctx.stage("match-patterns", npat * 6, false, |idx, _rng, rep| {
        let name = pat_names[(idx / 6) as usize];
        let src = match idx % 6 {
            0 => format!("match x {{ case {}: 1, case _: 2 }}", name),
            1 => format!("match x {{ case == {}: 1, case _: 2 }}", name),
            2 => format!("match x {{ case < {}: 1 }}", name),
            3 => format!("[1, 2].map(e, match e {{ case {}: 0, case _: e }})", name),
            4 => format!("match {} {{ case {}: 1, case _: 2 }}", name, name),
            _ => format!("match x {{ case {}: match y {{ case {}: 1 }}, case _: 2 }}", name, name),
        };
        for x in &small {
            let binds = vec![("x".to_string(), x.clone()), ("y".to_string(), x.clone())];
            let out = mon::run1(&src, &binds);
            check_total(rep, "match-patterns", &src, &binds, &out);
        }
        rep.count("match_pattern_programs");
        rep.distinct(&src, true);
    });

    // ---- built-in sweep, literal form (the compiler executes the call) --------------------
    let spelled: Vec<(String, CelValue)> = full
        .iter()
        .filter_map(|v| vals::spell(v).map(|s| (s, v.clone())))
        .collect();
    let spelled_small: Vec<String> = small.iter().filter_map(vals::spell).collect();
    ctx.stage("sweep-lit", nn * 4, false, |idx, _rng, rep| {
        let name = names[(idx / 4) as usize];
        let shape = idx % 4;
        match shape {
            0 => {
                for (s, _) in &spelled {
                    let src = format!("{}({})", name, s);
                    total(rep, "sweep-lit", &src, &[]);
                    rep.distinct(&src, true);
                }
            }
            1 => {
                for (s, _) in &spelled {
                    let src = format!("{}.{}()", s, name);
                    total(rep, "sweep-lit", &src, &[]);
                    rep.distinct(&src, true);
                }
            }
            2 => {
                for a in &spelled_small {
                    for b in &spelled_small {
                        let src = format!("{}({}, {})", name, a, b);
                        total(rep, "sweep-lit", &src, &[]);
                    }
                }
            }
            _ => {
                for a in &spelled_small {
                    for b in &spelled_small {
                        let src = format!("{}.{}({})", a, name, b);
                        total(rep, "sweep-lit", &src, &[]);
                    }
                }
            }
        }
        rep.sample(|| json!({"stage":"sweep-lit","name":name,"shape":shape}));
    });

    // ---- operators over the pool (both forms) ---------------------------------------------
    let ops = ["+", "-", "*", "/", "%", "<", "<=", ">", ">=", "==", "!=", "in", "&&", "||"];
    ctx.stage("ops-var", ops.len() as u64, false, |idx, _rng, rep| {
        let op = ops[idx as usize];
        let src = format!("a {} b", op);
        let prog = mon::compile(&src).expect("compiles");
        let mut c = rscel::CelContext::new();
        c.add_program("main", prog);
        for a in &full {
            for b in &full {
                let binds = vec![("a".to_string(), a.clone()), ("b".to_string(), b.clone())];
                let out = mon::run_in(&mut c, &binds);
                check_total(rep, "op", &src, &binds, &out);
            }
        }
        rep.distinct(&src, true);
    });
    ctx.stage("ops-lit", (ops.len() * spelled.len()) as u64, false, |idx, _rng, rep| {
        let op = ops[idx as usize % ops.len()];
        let (a, _) = &spelled[idx as usize / ops.len()];
        for (b, _) in &spelled {
            let src = format!("{} {} {}", a, op, b);
            total(rep, "op-lit", &src, &[]);
        }
    });
    ctx.stage("unary-index", full.len() as u64, false, |idx, _rng, rep| {
        let a = &full[idx as usize];
        for src in ["-a", "!a", "--a", "a ? 1 : 2", "a[b]", "a.b", "[a][0]", "{'k': a}.k", "f'{a}'",
                    "match a { case int: 1, case > 1: 2, case 'x': 3, case _: 4 }", "a.map(x, x)",
                    "has(a.b)", "coalesce(a, 1)", "[a].sort()", "min(a)", "a in a"] {
            if src.contains('b') && src != "has(a.b)" && src != "a.b" {
                for b in &small {
                    let binds = vec![("a".to_string(), a.clone()), ("b".to_string(), b.clone())];
                    total(rep, "unary-index", src, &binds);
                }
            } else {
                let binds = vec![("a".to_string(), a.clone())];
                total(rep, "unary-index", src, &binds);
            }
        }
        if let Some(s) = vals::spell(a) {
            for t in ["-{}", "!{}", "{} ? 1 : 2", "{}[0]", "{}[-1]", "{}['a']", "{}.a", "f'{{{}}}'",
                      "match {} {{ case int: 1, case > 1: 2, case 'x': 3, case _: 4 }}", "[{}].sort()"] {
                let src = t.replace("{}", &s);
                total(rep, "unary-index-lit", &src, &[]);
            }
        }
    });

    // ---- every prefix of every corpus expression -------------------------------------------
    ctx.stage("truncate", CORPUS.len() as u64, false, |idx, _rng, rep| {
        let src = CORPUS[idx as usize];
        let binds = corpus_binds();
        let chars: Vec<char> = src.chars().collect();
        for n in 0..=chars.len() {
            let s: String = chars[..n].iter().collect();
            total(rep, "truncate", &s, &binds);
            rep.distinct(&s, n > 0);
        }
        for n in 0..chars.len() {
            let s: String = chars[n..].iter().collect();
            total(rep, "truncate-head", &s, &binds);
        }
        rep.sample(|| json!({"stage":"truncate","source":src}));
    });

    // ---- token / character mutation -------------------------------------------------------
    let nmut = ctx.n(150_000, 1_500_000);
    ctx.stage("mutate", nmut, true, |_idx, rng, rep| {
        let binds = corpus_binds();
        let src = mutate(rng);
        let out = total(rep, "mutate", &src, &binds);
        rep.distinct(&src, true);
        rep.count(&format!("mutate_outcome/{}", out.class()));
        rep.sample(|| json!({"stage":"mutate","source":src,"outcome":out.show()}));
    });

    // ---- grammar-derived sources from the typed generator, tame and hostile bindings ---------
    let ngen = ctx.n(120_000, 1_500_000);
    ctx.stage("grammar", ngen, true, |_idx, rng, rep| {
        let nv = rng.below(5);
        let vars = gen::random_vars(rng, nv);
        let mut cfg = GenCfg::basic(vars.clone());
        cfg.ill_typed_pct = 8;
        cfg.unbound = vec!["nope".into(), "undefined_thing".into()];
        cfg.tame = rng.chance(2, 3);
        let depth = 1 + rng.below(5) as u32;
        let ty = gen::random_ty(rng, 1);
        let e = Gen::new(rng, cfg).expr(&ty, depth);
        let ws = *rng.pick(&[Ws::Pretty, Ws::Tight, Ws::Random]);
        let src = gen::render(&e, ws, Parens::Minimal, Some(rng)).text;
        let binds = if rng.chance(2, 3) {
            gen::random_binds(rng, &vars, true)
        } else {
            // hostile: any value of any type for every variable
            vars.iter().map(|v| (v.name.clone(), rng.pick(&full).clone())).collect()
        };
        let (out, tr) = hookmon::with_trace(true, || mon::run1(&src, &binds));
        check_total(rep, "grammar", &src, &binds, &out);
        rep.add("hook_frames", tr.frames);
        rep.add("hook_steps", tr.steps);
        if let Some(p) = tr.problems.first() {
            // bounded progress: a frame never executes more steps than it has instructions
            rep.viol(
                &format!("progress|{}", p.split(' ').take(3).collect::<Vec<_>>().join(" ")),
                &format!("VM trace monitor: {}", p),
                json!({"source": src, "bindings": binds_json(&binds)}),
            );
        }
        rep.distinct(&src, e.size() >= 3);
        rep.count(&format!("grammar_outcome/{}", out.class().split(':').next().unwrap()));
        rep.sample(|| json!({"stage":"grammar","source":src,"bindings":binds_json(&binds),"outcome":out.show()}));
    });

    // ---- lists handed to sort / min / max / in: incomparable and NaN-laden ------------------
    let nsort = ctx.n(30_000, 400_000);
    let dbl: Vec<CelValue> = vals::double_pool().into_iter().map(CelValue::from_float).collect();
    let num: Vec<CelValue> = dbl
        .iter()
        .cloned()
        .chain(vals::int_pool().into_iter().map(CelValue::from_int))
        .chain(vals::uint_pool().into_iter().map(CelValue::from_uint))
        .collect();
    let strs: Vec<CelValue> = vals::string_pool().into_iter().map(CelValue::from_string).collect();
    ctx.stage("sort-hostile", nsort, true, |_idx, rng, rep| {
        // lengths on both sides of the standard library's small-sort thresholds (20, 32, 64)
        let n = match rng.below(4) {
            0 => rng.below(8),
            1 => 15 + rng.below(25),
            2 => 40 + rng.below(60),
            _ => rng.below(40),
        };
        let family = rng.below(7);
        rep.count(&format!("sort_family/{}", family));
        let nan = CelValue::from_float(f64::NAN);
        let mut l: Vec<CelValue> = (0..n)
            .map(|i| match family {
                0 => rng.pick(&full).clone(),
                1 => rng.pick(&dbl).clone(),
                2 => rng.pick(&num).clone(),
                3 => rng.pick(&strs).clone(),
                // a comparable family with a few NaN strewn in
                4 => {
                    if rng.chance(1, 12) {
                        nan.clone()
                    } else {
                        CelValue::from_float(rng.range(-50, 50) as f64 / 4.0)
                    }
                }
                // scrambled ints (long runs, duplicates)
                5 => CelValue::from_int(rng.range(-20, 20) * if i % 3 == 0 { -1 } else { 1 }),
                _ => CelValue::from_uint(rng.below(30) as u64),
            })
            .collect();
        // one stranger at a random position: NaN, another type, a list, null
        if n > 0 && rng.chance(1, 2) {
            let at = rng.below(n);
            l[at] = match rng.below(5) {
                0 | 1 => nan.clone(),
                2 => rng.pick(&full).clone(),
                3 => CelValue::from_null(),
                _ => CelValue::from_list(vec![1.into()]),
            };
            rep.count("sort_lists_with_stranger");
        }
        if l.len() > 20 {
            rep.count("sort_lists_longer_than_20");
            if l.iter().any(|v| matches!(v, CelValue::Float(f) if f.is_nan())) {
                rep.count("sort_long_lists_with_nan");
            }
        }
        let lv = CelValue::from_list(l);
        let binds = vec![("l".to_string(), lv.clone())];
        for src in ["l.sort()", "sort(l)", "l.map(x, x).sort()", "l.filter(x, x in l)", "l.sort().sort()", "l.max()", "l.min()", "max(l)", "min(l)"] {
            total(rep, "sort-hostile", src, &binds);
        }
        // the same list as a literal: folded at compile time
        if let Some(lit) = vals::spell(&lv) {
            if lit.len() < 6000 {
                rep.count("sort_literal_forms");
                for shape in ["@.sort()", "@.sort()[0]", "size(@.sort())"] {
                    total(rep, "sort-hostile-literal", &shape.replace('@', &lit), &[]);
                }
            }
        }
    });

    // ---- depth ladders: each case alone, on the main thread and on a default 2 MiB thread ----
    let mut depths: Vec<usize> = Vec::new();
    let maxpow = if ctx.quick() { 12 } else { 17 };
    for p in 0..=maxpow {
        depths.push(1usize << p);
    }
    depths.extend([31, 33, 34, 50, 60, 70, 100, 200, 300, 400, 600, 1000, 3000]);
    depths.sort();
    depths.dedup();
    let kinds = LADDERS.len();
    ctx.stage_each("ladder", (kinds * depths.len()) as u64, false, |idx, _rng, rep| {
        let kind = idx as usize % kinds;
        let depth = depths[idx as usize / kinds];
        let (name, f) = LADDERS[kind];
        // the compiler is quadratic in the length of member / argument / element sequences
        // (it re-collects the bytecode vector per element); that is slow, not non-returning,
        // so these kinds stop at 8192
        if QUADRATIC.contains(&name) && depth > 8192 {
            rep.count("ladder_skipped_quadratic");
            return;
        }
        let src = f(depth);
        rep.mark(name);
        rep.count(&format!("ladder_kind/{}", name));
        // main thread (8 MiB)
        let out = mon::run1(&src, &[]);
        check_total_ladder(rep, name, depth, "main", &src, &out);
        // default-size thread
        let src2 = src.clone();
        let h = std::thread::Builder::new()
            .spawn(move || mon::run1(&src2, &[]))
            .expect("spawn");
        match h.join() {
            Ok(out2) => check_total_ladder(rep, name, depth, "thread-2MiB", &src, &out2),
            Err(_) => rep.viol(
                &format!("ladder|{}|thread-panic", name),
                "worker thread panicked outside catch_unwind",
                json!({"ladder": name, "depth": depth}),
            ),
        }
        rep.distinct(&format!("{}:{}", name, depth), depth >= 2);
        rep.sample(|| json!({"stage":"ladder","kind":name,"depth":depth,"source":mon::clip(&src, 120),"outcome":out.show()}));
    });

    // ---- cyclic references between programs, through every referencing construct ----------------
    let ncon = crate::props::c12::CONSTRUCTS.len();
    ctx.stage_each("program-cycles", (ncon * 4) as u64, false, |idx, _rng, rep| {
        let con = idx as usize / 4;
        let (n, adj) = match idx % 4 {
            0 => (1, 0b1u32),
            1 => (2, 0b0110),
            2 => (3, 0b001_100_010),
            _ => (3, 0b010_100_010), // p0 -> p1 -> p2 -> p1
        };
        crate::props::c12::graph_case(rep, n, adj, &[con], &format!("cycle-{}", crate::props::c12::CONSTRUCTS[con].0));
    });

    // ---- random UTF-8 over a CEL-heavy alphabet ---------------------------------------------
    let nrand = ctx.n(150_000, 1_500_000);
    ctx.stage("random-utf8", nrand, true, |_idx, rng, rep| {
        let src = random_source(rng);
        let out = total(rep, "random", &src, &[]);
        rep.distinct(&src, src.chars().count() >= 2);
        rep.count(&format!("random_outcome/{}", out.class()));
        rep.sample(|| json!({"stage":"random-utf8","source":src,"outcome":out.show()}));
    });
}

fn check_total_ladder(rep: &mut Rep, name: &str, depth: usize, thread: &str, src: &str, out: &Out) {
    rep.eval();
    rep.count(&format!("ladder_outcome/{}", out.class().split(':').next().unwrap()));
    if let Out::Panic(m, l) = out {
        rep.viol(
            &format!("ladder|{}|panic|{}", name, panic_sig(m, l)),
            &format!("ladder {} depth {} on {}: panicked: {} at {}", name, depth, thread, m, l),
            json!({"ladder": name, "depth": depth, "thread": thread, "source": mon::clip(src, 300)}),
        );
    }
}

pub type LadderFn = fn(usize) -> String;

const QUADRATIC: &[&str] = &[
    "member-chain", "index-chain", "method-chain", "wide-list", "wide-map", "wide-call",
    "fstring-wide", "match-wide",
];

fn rep_s(s: &str, n: usize) -> String {
    s.repeat(n)
}

pub const LADDERS: &[(&str, LadderFn)] = &[
    ("parens", |n| format!("{}1{}", rep_s("(", n), rep_s(")", n))),
    ("neg-run", |n| format!("{}1", rep_s("-", n))),
    ("not-run", |n| format!("{}true", rep_s("!", n))),
    ("neg-paren", |n| format!("{}1{}", rep_s("-(", n), rep_s(")", n))),
    ("list", |n| format!("{}{}", rep_s("[", n), rep_s("]", n))),
    ("map", |n| format!("{}1{}", rep_s("{'a':", n), rep_s("}", n))),
    ("index-chain", |n| format!("[[1]]{}", rep_s("[0]", n))),
    ("index-nest", |n| format!("{}0{}", rep_s("[0][", n), rep_s("]", n))),
    ("member-chain", |n| format!("{{'a': 1}}{}", rep_s(".a", n))),
    ("call-nest", |n| format!("{}1{}", rep_s("int(", n), rep_s(")", n))),
    ("method-chain", |n| format!("'x'{}", rep_s(".trim()", n))),
    ("ternary-right", |n| format!("{}0", rep_s("true ? 1 : ", n))),
    ("ternary-cond", |n| format!("{}true{}", rep_s("(", n), rep_s(" ? true : false)", n))),
    ("match-nest", |n| format!("{}0{}", rep_s("match 1 { case _: ", n), rep_s(" }", n))),
    ("match-scrutinee", |n| format!("{}1{}", rep_s("match ", n), rep_s(" { case _: 1 }", n))),
    ("macro-nest", |n| format!("{}x{}", rep_s("[1].map(x, ", n), rep_s(")", n))),
    ("has-nest", |n| format!("{}x{}", rep_s("has(", n), rep_s(")", n))),
    ("coalesce-nest", |n| format!("{}1{}", rep_s("coalesce(", n), rep_s(")", n))),
    ("add-chain", |n| format!("1{}", rep_s(" + 1", n))),
    ("add-chain-var", |n| format!("x{}", rep_s(" + 1", n))),
    ("or-chain", |n| format!("false{}", rep_s(" || false", n))),
    ("and-chain-var", |n| format!("x{}", rep_s(" && true", n))),
    ("rel-chain", |n| format!("1{}", rep_s(" < 2", n))),
    ("wide-list", |n| format!("[{}1]", rep_s("1, ", n))),
    ("wide-map", |n| format!("{{{}'k': 1}}", rep_s("'k': 1, ", n))),
    ("wide-call", |n| format!("min({}1)", rep_s("1, ", n))),
    ("fstring-wide", |n| format!("f'{}'", rep_s("{1}", n))),
    ("fstring-brace-nest", |n| format!("f'{}1{}'", rep_s("{", n), rep_s("}", n))),
    ("match-wide", |n| format!("match 1 {{ {} case _: 0 }}", rep_s("case 2: 1,", n))),
    ("string-long", |n| format!("'{}'", rep_s("a", n))),
    ("ident-long", |n| rep_s("a", n)),
];

pub fn corpus_binds() -> Vec<(String, CelValue)> {
    vec![
        ("a".to_string(), 3.into()),
        ("b".to_string(), true.into()),
        ("c".to_string(), 2.5.into()),
        ("d".to_string(), "dee".into()),
        ("e".to_string(), 0.into()),
        ("l".to_string(), CelValue::from_list(vec![vals::mk_map(&[("f", 1.into()), ("a", 2.into())])])),
        ("m".to_string(), vals::mk_map(&[("a", vals::mk_map(&[("b", vals::mk_map(&[("c", 1.into())]))]))])),
        ("name".to_string(), "bob".into()),
        ("x".to_string(), "str".into()),
    ]
}

const PIECES: &[&str] = &[
    "(", ")", "[", "]", "{", "}", ",", ".", ":", "?", "+", "-", "*", "/", "%", "!", "<", "<=", ">",
    ">=", "==", "!=", "&&", "||", "in", "match", "case", "_", "null", "true", "false", "'", "\"",
    "\\", "f'", "b'", "r'", "0x", "1", "0", "9223372036854775808", "18446744073709551616u", "1u",
    "1.5", "1e", "e5", ".5", "a", "b", "m", "l", "x", "size", "map", "has", "int", "dyn", "list",
    "object", "timestamp", "duration", " ", "\n", "\t", "é", "😀", "\u{0}", "\\x", "\\u12", "\\777",
    "{{", "}}", "=", "&", "|", "#", "$", "@", "~", "^", ";", "`", "\u{feff}", "\u{2028}", "\r",
];

fn mutate(rng: &mut Rng) -> String {
    let base = *rng.pick(CORPUS);
    let mut chars: Vec<char> = base.chars().collect();
    let nm = 1 + rng.below(3);
    for _ in 0..nm {
        let pos = rng.below(chars.len() + 1);
        match rng.below(6) {
            0 => {
                if pos < chars.len() {
                    chars.remove(pos);
                }
            }
            1 => {
                let piece: Vec<char> = rng.pick(PIECES).chars().collect();
                for (i, c) in piece.into_iter().enumerate() {
                    chars.insert((pos + i).min(chars.len()), c);
                }
            }
            2 => {
                if pos < chars.len() {
                    let c = chars[pos];
                    chars.insert(pos, c);
                }
            }
            3 => {
                if chars.len() >= 2 {
                    let q = rng.below(chars.len());
                    let p = pos.min(chars.len() - 1);
                    chars.swap(p, q);
                }
            }
            4 => {
                // splice with another corpus entry
                let other: Vec<char> = rng.pick(CORPUS).chars().collect();
                let cut = rng.below(other.len() + 1);
                chars.truncate(pos);
                chars.extend_from_slice(&other[cut..]);
            }
            _ => {
                if pos < chars.len() {
                    let piece: Vec<char> = rng.pick(PIECES).chars().collect();
                    chars.remove(pos);
                    for (i, c) in piece.into_iter().enumerate() {
                        chars.insert((pos + i).min(chars.len()), c);
                    }
                }
            }
        }
    }
    chars.into_iter().collect()
}

fn random_source(rng: &mut Rng) -> String {
    let n = rng.below(40);
    let mut s = String::new();
    for _ in 0..n {
        if rng.chance(1, 12) {
            // arbitrary scalar value
            let mut c = None;
            while c.is_none() {
                c = char::from_u32((rng.next() % 0x110000) as u32);
            }
            s.push(c.unwrap());
        } else {
            s.push_str(*rng.pick(PIECES));
        }
    }
    s
}

#[allow(dead_code)]
pub fn show_val(v: &CelValue) -> String {
    canon(v)
}
