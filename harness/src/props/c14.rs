//! C14 - type conversions are exact on their domain and reject the rest; f-strings equal the
//! concatenation of their parts. Oracle: conversion model from the statement + round-trip laws +
//! differential decomposition of f-strings through the public API.

use rscel::CelValue;
use serde_json::json;

use crate::mon::{self, canon, Ctx, Out, Rep};
use crate::rng::Rng;
use crate::vals;

/// what the statement requires of T(x)
enum Want {
    Exact(CelValue),
    Error,
    /// one of these values or an error
    AnyOfOrErr(Vec<CelValue>),
    /// not asserted by the statement (only: no panic)
    Open,
}

fn strict_int(s: &str) -> Option<i128> {
    let b = s.as_bytes();
    if b.is_empty() {
        return None;
    }
    let (neg, digits) = match b[0] {
        b'-' => (true, &s[1..]),
        _ => (false, s),
    };
    if digits.is_empty() || digits.len() > 30 || !digits.bytes().all(|c| c.is_ascii_digit()) {
        return None;
    }
    let v: i128 = digits.parse().ok()?;
    Some(if neg { -v } else { v })
}

/// exact integer reading of a string with blanks and an optional '+' tolerated
fn lenient_int(s: &str) -> Option<i128> {
    let t = s.trim();
    strict_int(t.strip_prefix('+').unwrap_or(t))
}

/// a lenient reading of a numeric string: what number it could possibly spell
fn lenient_number(s: &str) -> Option<f64> {
    let t = s.trim();
    let t = t.strip_prefix('+').unwrap_or(t);
    if let Some(h) = t.strip_prefix("0x").or_else(|| t.strip_prefix("0X")) {
        return u64::from_str_radix(h, 16).ok().map(|v| v as f64);
    }
    t.parse::<f64>().ok()
}

fn trunc_to_i64(f: f64) -> Want {
    if f.is_nan() {
        return Want::AnyOfOrErr(vec![0i64.into()]);
    }
    let t = f.trunc();
    if t >= -9223372036854775808.0 && t < 9223372036854775808.0 {
        Want::Exact((t as i64).into())
    } else {
        // out of range: the saturated value or an error
        Want::AnyOfOrErr(vec![(if t < 0.0 { i64::MIN } else { i64::MAX }).into()])
    }
}

fn trunc_to_u64(f: f64) -> Want {
    if f.is_nan() {
        return Want::AnyOfOrErr(vec![0u64.into()]);
    }
    let t = f.trunc();
    if t <= -1.0 {
        return Want::AnyOfOrErr(vec![0u64.into()]);
    }
    if t < 18446744073709551616.0 {
        Want::Exact((if t <= 0.0 { 0u64 } else { t as u64 }).into())
    } else {
        Want::AnyOfOrErr(vec![u64::MAX.into()])
    }
}

fn want(ctor: &str, x: &CelValue) -> Want {
    use CelValue::*;
    match (ctor, x) {
        ("dyn", v) => Want::Exact(v.clone()),
        ("int", Int(i)) => Want::Exact((*i).into()),
        ("int", UInt(u)) => match i64::try_from(*u) {
            std::result::Result::Ok(i) => Want::Exact(i.into()),
            std::result::Result::Err(_) => Want::Error,
        },
        ("int", Float(f)) => trunc_to_i64(*f),
        ("int", Bool(b)) => Want::Exact((*b as i64).into()),
        ("int", String(s)) => match strict_int(s) {
            Some(v) => match i64::try_from(v) {
                std::result::Result::Ok(i) => Want::Exact(i.into()),
                std::result::Result::Err(_) => Want::Error,
            },
            None => match (lenient_int(s), lenient_number(s)) {
                // beyond plain decimal: if it is accepted at all it must be the number it spells
                (Some(v), _) => match i64::try_from(v) {
                    std::result::Result::Ok(i) => Want::AnyOfOrErr(vec![i.into()]),
                    std::result::Result::Err(_) => Want::Error,
                },
                (None, Some(f)) if f.fract() == 0.0 && f.abs() < 9e18 => Want::AnyOfOrErr(vec![(f as i64).into()]),
                _ => Want::Error,
            },
        },
        ("int", TimeStamp(t)) => Want::Exact(t.timestamp().into()),
        ("int", Duration(_)) => Want::Open,
        ("int", _) => Want::Error,

        ("uint", UInt(u)) => Want::Exact((*u).into()),
        ("uint", Int(i)) => match u64::try_from(*i) {
            std::result::Result::Ok(u) => Want::Exact(u.into()),
            std::result::Result::Err(_) => Want::Error,
        },
        ("uint", Float(f)) => trunc_to_u64(*f),
        ("uint", Bool(b)) => Want::Exact((*b as u64).into()),
        ("uint", String(s)) => match strict_int(s) {
            Some(v) => match u64::try_from(v) {
                // "-0" spells zero with a sign no uint rendering ever has: accepting it as 0 or rejecting it are both exact
                std::result::Result::Ok(u) if s.starts_with('-') => Want::AnyOfOrErr(vec![u.into()]),
                std::result::Result::Ok(u) => Want::Exact(u.into()),
                std::result::Result::Err(_) => Want::Error,
            },
            None => match (lenient_int(s), lenient_number(s)) {
                (Some(v), _) => match u64::try_from(v) {
                    std::result::Result::Ok(u) => Want::AnyOfOrErr(vec![u.into()]),
                    std::result::Result::Err(_) => Want::Error,
                },
                (None, Some(f)) if f.fract() == 0.0 && f >= 0.0 && f < 1.8e19 => Want::AnyOfOrErr(vec![(f as u64).into()]),
                _ => Want::Error,
            },
        },
        ("uint", Duration(_)) | ("uint", TimeStamp(_)) => Want::Open,
        ("uint", _) => Want::Error,

        ("double", Float(f)) => Want::Exact((*f).into()),
        ("double", Int(i)) => Want::Exact((*i as f64).into()),
        ("double", UInt(u)) => Want::Exact((*u as f64).into()),
        ("double", Bool(b)) => Want::Exact((if *b { 1.0 } else { 0.0 }).into()),
        ("double", String(s)) => match s.parse::<f64>() {
            std::result::Result::Ok(f) => {
                // plain decimal / exponent spellings must convert; inf / nan spellings are open
                let plain = s.bytes().all(|c| c.is_ascii_digit() || b"+-.eE".contains(&c)) && !s.is_empty();
                if plain {
                    Want::Exact(f.into())
                } else {
                    Want::AnyOfOrErr(vec![f.into()])
                }
            }
            std::result::Result::Err(_) => match lenient_number(s) {
                Some(f) => Want::AnyOfOrErr(vec![f.into()]),
                None => Want::Error,
            },
        },
        ("double", Duration(_)) | ("double", TimeStamp(_)) => Want::Open,
        ("double", _) => Want::Error,

        ("string", Int(i)) => Want::Exact(i.to_string().into()),
        ("string", UInt(u)) => Want::Exact(u.to_string().into()),
        ("string", String(s)) => Want::Exact(s.as_str().into()),
        ("string", Bytes(b)) => match std::str::from_utf8(b.as_slice()) {
            std::result::Result::Ok(s) => Want::Exact(s.into()),
            std::result::Result::Err(_) => Want::Error,
        },
        // format of doubles / timestamps / durations is judged by round trips below
        ("string", Float(_)) | ("string", TimeStamp(_)) | ("string", Duration(_)) => Want::Open,
        ("string", Bool(_)) | ("string", Null) | ("string", Type(_)) => Want::Open,
        ("string", List(_)) | ("string", Map(_)) => Want::Open,

        ("bytes", String(s)) => Want::Exact(CelValue::from_bytes(s.as_bytes().to_vec())),
        ("bytes", Bytes(b)) => Want::Exact(CelValue::Bytes(b.clone())),
        ("bytes", _) => Want::Error,

        ("bool", Bool(b)) => Want::Exact((*b).into()),
        ("bool", String(s)) => match s.as_str() {
            "1" | "t" | "true" | "TRUE" | "True" => Want::Exact(true.into()),
            "0" | "f" | "false" | "FALSE" | "False" => Want::Exact(false.into()),
            _ => Want::Open,
        },
        ("bool", _) => Want::Open,

        ("timestamp", TimeStamp(t)) => Want::Exact((*t).into()),
        ("timestamp", Int(_)) | ("timestamp", UInt(_)) | ("timestamp", String(_)) => Want::Open, // laws below
        ("timestamp", _) => Want::Error,

        ("duration", Duration(d)) => Want::Exact((*d).into()),
        ("duration", Int(_)) | ("duration", String(_)) => Want::Open,
        ("duration", _) => Want::Error,

        // type(x) names the variant of x - in particular type(type(..)) is `type`, whatever the inner type is
        ("type", v) => match mon::vtype(v) {
            "double" => Want::Exact(CelValue::from_type("float")),
            t @ ("int" | "uint" | "bool" | "string" | "bytes" | "list" | "map" | "null" | "type" | "timestamp" | "duration") => Want::Exact(CelValue::from_type(t)),
            _ => Want::Open,
        },
        _ => Want::Open,
    }
}

fn type_of_ctor(ctor: &str) -> Option<&'static str> {
    Some(match ctor {
        "int" => "int",
        "uint" => "uint",
        "double" | "float" => "float",
        "string" => "string",
        "bytes" => "bytes",
        "bool" => "bool",
        "timestamp" => "timestamp",
        "duration" => "duration",
        "type" => "type",
        _ => return None,
    })
}

const CTORS: [&str; 11] = ["int", "uint", "double", "float", "string", "bytes", "bool", "timestamp", "duration", "dyn", "type"];

fn check_conv(rep: &mut Rep, form: &str, ctor: &str, x: &CelValue, src: &str, out: &Out) {
    rep.eval();
    rep.count(&format!("ctor/{}/{}", ctor, mon::vtype(x)));
    let model_ctor = if ctor == "float" { "double" } else { ctor };
    let case = || json!({"source": src, "form": form, "x": canon(x), "outcome": out.show()});
    let sigbase = format!("{}({})", ctor, mon::vtype(x));
    if out.is_panic() {
        rep.viol(&format!("conv|{}|panic", sigbase), &out.show(), case());
        return;
    }
    let w = want(model_ctor, x);
    let bad = match (&w, out) {
        (Want::Exact(v), Out::Val(o)) => canon(v) != canon(o),
        (Want::Exact(_), _) => true,
        (Want::Error, Out::Err(_)) => false,
        (Want::Error, _) => true,
        (Want::AnyOfOrErr(_), Out::Err(_)) => false,
        (Want::AnyOfOrErr(vs), Out::Val(o)) => !vs.iter().any(|v| canon(v) == canon(o)),
        (Want::Open, _) => false,
        _ => false,
    };
    if bad {
        let wanted = match &w {
            Want::Exact(v) => canon(v),
            Want::Error => "an error".to_string(),
            Want::AnyOfOrErr(vs) => format!("one of {:?} or an error", vs.iter().map(canon).collect::<Vec<_>>()),
            Want::Open => String::new(),
        };
        let class = match (&w, out) {
            (Want::Error, _) => "value-instead-of-error",
            (_, Out::Err(_)) => "error-instead-of-value",
            _ => "wrong-value",
        };
        rep.viol(&format!("conv|{}|{}", sigbase, class), &format!("{} with x={}: wanted {}, got {}", src, canon(x), wanted, out.show()), case());
    }
}

fn laws(rep: &mut Rep, ctor: &str, x: &CelValue) {
    // T(T(x)) == T(x), type(T(x)) == T, on whatever T(x) evaluates to
    let binds = vec![("x".to_string(), x.clone())];
    let once = mon::run1(&format!("{}(x)", ctor), &binds);
    if let Out::Val(v1) = &once {
        rep.count("law/idempotent");
        let twice = mon::run1(&format!("{}({}(x))", ctor, ctor), &binds);
        rep.eval();
        if ctor != "type" {
            let ok = matches!(&twice, Out::Val(v2) if canon(v2) == canon(v1));
            if !ok {
                rep.viol(
                    &format!("idempotent|{}({})", ctor, mon::vtype(x)),
                    &format!("{c}({c}(x)) = {} but {c}(x) = {} for x={}", twice.show(), once.show(), canon(x), c = ctor),
                    json!({"ctor": ctor, "x": canon(x)}),
                );
            }
        }
        if let Some(t) = type_of_ctor(ctor) {
            let ty = mon::run1(&format!("type({}(x))", ctor), &binds);
            rep.eval();
            let ok = matches!(&ty, Out::Val(CelValue::Type(n)) if n == t);
            if !ok {
                rep.viol(
                    &format!("type-of|{}({})", ctor, mon::vtype(x)),
                    &format!("type({}(x)) = {} for x={}, expected type {}", ctor, ty.show(), canon(x), t),
                    json!({"ctor": ctor, "x": canon(x)}),
                );
            }
        }
    }
}

fn roundtrip(rep: &mut Rep, name: &str, src: &str, x: &CelValue) {
    let binds = vec![("x".to_string(), x.clone())];
    let out = mon::run1(src, &binds);
    rep.eval();
    rep.count(&format!("roundtrip/{}", name));
    let ok = matches!(&out, Out::Val(v) if canon(v) == canon(x));
    if !ok {
        rep.viol(
            &format!("roundtrip|{}", name),
            &format!("{} with x={} gave {}", src, canon(x), out.show()),
            json!({"source": src, "x": canon(x)}),
        );
    }
}

fn random_numeric_string(rng: &mut Rng) -> String {
    let core = match rng.below(10) {
        0 => format!("{}", rng.next() as i64),
        1 => format!("{}", rng.next()),
        2 => format!("{}", rng.range(-1000, 1000)),
        3 => format!("{:?}", rng.f64_bits()),
        4 => format!("{:e}", rng.range(-1000, 1000) as f64 / 8.0),
        5 => format!("{}{}", rng.next(), rng.next()), // far out of range
        6 => rng.pick(&["inf", "-inf", "nan", "NaN", "Infinity", "1e400", "-1e400", "0x10", "1_000", "١٢٣", "１２", "1.", ".5", "-.5", "--1", "+-1", "1e", "e5", "", " ", "-", "+", "1 2"]).to_string(),
        7 => format!("{}.{}", rng.below(100), rng.below(1000)),
        8 => format!("{}e{}", rng.below(100), rng.range(-400, 400)),
        _ => vals::random_string(rng, 4),
    };
    match rng.below(8) {
        0 => format!(" {}", core),
        1 => format!("{} ", core),
        2 => format!("+{}", core),
        3 => format!("\t{}\n", core),
        _ => core,
    }
}

pub fn run(ctx: &mut Ctx) {
    let pool = vals::full_pool();
    let np = pool.len() as u64;
    let nc = CTORS.len() as u64;

    // ---- every pool value x every constructor, both forms --------------------------------------
    ctx.stage("pool", np * nc, false, |idx, _rng, rep| {
        let x = &pool[(idx / nc) as usize];
        let ctor = CTORS[(idx % nc) as usize];
        let binds = vec![("x".to_string(), x.clone())];
        let src = format!("{}(x)", ctor);
        let out = mon::run1(&src, &binds);
        check_conv(rep, "variable", ctor, x, &src, &out);
        if let Some(s) = vals::spell(x) {
            let src = format!("{}({})", ctor, s);
            let out2 = mon::run1(&src, &[]);
            check_conv(rep, "literal", ctor, x, &src, &out2);
            // folded and unfolded must agree (values bit-exact, both failing otherwise)
            if out.canon_anyerr() != out2.canon_anyerr() {
                rep.viol(
                    &format!("form-diff|{}({})", ctor, mon::vtype(x)),
                    &format!("{}: variable form {} vs literal form {}", src, out.show(), out2.show()),
                    json!({"source": src, "x": canon(x)}),
                );
            }
        }
        laws(rep, ctor, x);
        rep.distinct(&format!("{}|{}", ctor, canon(x)), true);
        rep.sample(|| json!({"stage":"pool","call":format!("{}(x)", ctor),"x":mon::clip(&canon(x), 80),"outcome":mon::clip(&out.show(), 100)}));
    });

    // ---- random sources ------------------------------------------------------------------------
    let n = ctx.n(150_000, 1_500_000);
    ctx.stage("random", n, true, |_idx, rng, rep| {
        let x = match rng.below(8) {
            0 | 1 => CelValue::from_string(random_numeric_string(rng)),
            2 => CelValue::from_float(rng.f64_bits()),
            3 => CelValue::from_float((rng.next() as i64) as f64 / (1u64 << rng.below(20)) as f64),
            4 => CelValue::from_int(rng.next() as i64),
            5 => CelValue::from_uint(rng.next()),
            _ => vals::random_value(rng, 1),
        };
        let ctor = *rng.pick(&CTORS);
        let binds = vec![("x".to_string(), x.clone())];
        let src = format!("{}(x)", ctor);
        let out = mon::run1(&src, &binds);
        check_conv(rep, "variable", ctor, &x, &src, &out);
        if rng.chance(1, 4) {
            laws(rep, ctor, &x);
        }
        rep.distinct(&format!("{}|{}", ctor, canon(&x)), true);
        rep.sample(|| json!({"stage":"random","call":src,"x":mon::clip(&canon(&x), 80),"outcome":mon::clip(&out.show(), 100)}));
    });

    // ---- round trips ---------------------------------------------------------------------------
    let nr = ctx.n(100_000, 1_000_000);
    ctx.stage("roundtrip", nr, true, |_idx, rng, rep| {
        match rng.below(8) {
            0 => {
                let i = if rng.chance(1, 4) { *rng.pick(&vals::int_pool()) } else { rng.next() as i64 };
                roundtrip(rep, "int(string(i))", "int(string(x))", &i.into());
            }
            1 => {
                let u = if rng.chance(1, 4) { *rng.pick(&vals::uint_pool()) } else { rng.next() };
                roundtrip(rep, "uint(string(u))", "uint(string(x))", &u.into());
            }
            2 => {
                let mut f = if rng.chance(1, 4) { *rng.pick(&vals::double_pool()) } else { rng.f64_bits() };
                if !f.is_finite() {
                    f = 0.1;
                }
                roundtrip(rep, "double(string(d))", "double(string(x))", &f.into());
            }
            3 => {
                let s = vals::random_string(rng, 12);
                roundtrip(rep, "string(bytes(s))", "string(bytes(x))", &s.as_str().into());
            }
            4 => {
                let s = vals::random_string(rng, 12);
                roundtrip(rep, "bytes(string(b))", "bytes(string(x))", &CelValue::from_bytes(s.into_bytes()));
            }
            5 => {
                // whole-second timestamps through int
                let secs = rng.range(-62135596800, 253402300799);
                roundtrip(rep, "timestamp(int(t))", "timestamp(int(x))", &CelValue::from_timestamp(vals::ts(secs, 0)));
                // int(timestamp(n)) == n whenever timestamp(n) evaluates
                let nval: CelValue = if rng.chance(1, 2) {
                    CelValue::from_int(if rng.chance(1, 2) { secs } else { *rng.pick(&vals::int_pool()) })
                } else {
                    CelValue::from_uint(if rng.chance(1, 2) { secs.unsigned_abs() } else { *rng.pick(&vals::uint_pool()) })
                };
                let binds = vec![("x".to_string(), nval.clone())];
                if mon::run1("timestamp(x)", &binds).is_val() {
                    let back = mon::run1("int(timestamp(x))", &binds);
                    rep.eval();
                    let want = match &nval {
                        CelValue::Int(i) => *i as i128,
                        CelValue::UInt(u) => *u as i128,
                        _ => 0,
                    };
                    let ok = matches!(&back, Out::Val(CelValue::Int(i)) if *i as i128 == want);
                    if !ok {
                        rep.viol(
                            &format!("roundtrip|int(timestamp({}))", mon::vtype(&nval)),
                            &format!("timestamp(x) evaluates for x={} but int(timestamp(x)) = {}", canon(&nval), back.show()),
                            json!({"x": canon(&nval)}),
                        );
                    }
                }
            }
            6 => {
                // timestamps (years 1..9999, nanosecond resolution) through string
                let secs = rng.range(-62135596800, 253402300799);
                let nanos = *rng.pick(&[0u32, 1, 999_999_999, 123_000_000, 500_000_000]);
                roundtrip(rep, "timestamp(string(t))", "timestamp(string(x))", &CelValue::from_timestamp(vals::ts(secs, nanos)));
            }
            _ => {
                roundtrip(rep, "dyn(x)", "dyn(x)", &vals::random_value(rng, 2));
            }
        }
    });

    // ---- f-strings: differential decomposition ----------------------------------------------------
    let nf = ctx.n(60_000, 600_000);
    ctx.stage("fstring", nf, true, |_idx, rng, rep| {
        let nseg = rng.below(7);
        // embedded expressions may be literals (spelled with single quotes), so half of the f-strings use double quotes
        let q = if rng.chance(1, 2) { '"' } else { '\'' };
        let mut src = format!("f{}", q);
        let mut expect: Option<String> = Some(String::new());
        let mut binds: Vec<(String, CelValue)> = Vec::new();
        let mut desc: Vec<String> = Vec::new();
        let mut n_expr = 0;
        for k in 0..nseg {
            if rng.chance(1, 2) {
                // literal segment over a brace/quote-heavy alphabet
                let len = 1 + rng.below(4);
                for _ in 0..len {
                    let c = *rng.pick(&['a', ' ', '{', '}', 'é', '😀', '"', '\'', '\\', '-', '\n', '0']);
                    match c {
                        '{' => src.push_str("{{"),
                        '}' => src.push_str("}}"),
                        '\'' => src.push_str("\\'"),
                        '"' => src.push_str("\\\""),
                        '\\' => src.push_str("\\\\"),
                        '\n' => src.push_str("\\n"),
                        c => src.push(c),
                    }
                    if let Some(e) = expect.as_mut() {
                        e.push(c);
                    }
                }
                desc.push("lit".into());
            } else {
                n_expr += 1;
                let name = format!("v{}", k);
                let v = match rng.below(12) {
                    10 => CelValue::from_bool(rng.chance(1, 2)),
                    11 => CelValue::from_null(),
                    0 => CelValue::from_int(rng.next() as i64),
                    1 => CelValue::from_uint(rng.next()),
                    2 => CelValue::from_float(rng.range(-1000, 1000) as f64 / 8.0),
                    3 => CelValue::from_string(vals::random_string(rng, 4)),
                    4 => CelValue::from_bytes(vals::random_string(rng, 3).into_bytes()),
                    5 => CelValue::from_timestamp(vals::ts(rng.range(0, 4_000_000_000), 0)),
                    6 => CelValue::from_duration(chrono::Duration::seconds(rng.range(-5000, 5000))),
                    7 => CelValue::from_list(vec![1.into()]),
                    8 => vals::mk_map(&[("a", 1.into())]),
                    _ => CelValue::from_bytes(vec![0xff, 0xfe]),
                };
                // the embedded expression: the variable, a small expression over it, or - the compile-time path - the
                // value written as a literal / constant expression (only spellings that can stand inside this f-string)
                let lit = vals::spell(&v).filter(|t| q == '"' && !t.contains('"') && !t.contains('\\') && !t.contains('{') && !t.contains('}') && !t.contains('\n'));
                let e = match (rng.below(8), lit) {
                    (0, _) => format!("{} ", name),
                    (1, _) => format!("[{}][0]", name),
                    (2, _) => format!("({})", name),
                    (3, Some(t)) | (4, Some(t)) => {
                        rep.count("fstring/constant-segment");
                        rep.count(&format!("fstring/constant-segment/{}", mon::vtype(&v)));
                        t
                    }
                    (5, Some(t)) => {
                        rep.count("fstring/constant-segment");
                        format!("[{}][0]", t)
                    }
                    _ => name.clone(),
                };
                src.push('{');
                src.push_str(&e);
                src.push('}');
                // expected piece: string(e) evaluated on its own through the API
                let piece = mon::run1(&format!("string({})", e), &[(name.clone(), v.clone())]);
                match (&piece, expect.as_mut()) {
                    (Out::Val(CelValue::String(s)), Some(acc)) => acc.push_str(s),
                    _ => expect = None,
                }
                desc.push(format!("{}={}", e.trim(), mon::clip(&canon(&v), 40)));
                binds.push((name, v));
            }
        }
        src.push(q);
        let out = mon::run1(&src, &binds);
        rep.eval();
        rep.count(if expect.is_some() { "fstring/expect-value" } else { "fstring/expect-failure" });
        let ok = match (&expect, &out) {
            (_, Out::Panic(..)) => false,
            (Some(e), Out::Val(CelValue::String(s))) => e == s,
            (Some(_), _) => false,
            (None, Out::Err(_)) => true,
            (None, _) => false,
        };
        if !ok {
            rep.viol(
                &format!("fstring|{}", if expect.is_some() { "wrong-or-failed" } else { "should-fail" }),
                &format!("{} gave {}, expected {}", src, out.show(), expect.as_ref().map(|e| format!("{:?}", e)).unwrap_or("a failure (a segment does not convert to string)".into())),
                json!({"source": src, "segments": desc}),
            );
        }
        rep.distinct(&src, n_expr >= 1);
        rep.sample(|| json!({"stage":"fstring","source":src,"outcome":mon::clip(&out.show(), 120)}));
    });
}
