//! C12 - names resolve in a fixed order; program references compose and are depth-bounded.

use rscel::{BindContext, CelContext, CelError, CelValue, RsCelMacro};
use serde_json::json;

use crate::hookmon;
use crate::mon::{self, canon, Ctx, Out, Rep};
use crate::rng::Rng;
use crate::vals;

// ---- referencing constructs ---------------------------------------------------------------------
// (name, template with {} for the referenced program, turns-a-hard-failure-into-a-value,
//  carries the target's value into the sum - otherwise it contributes 0)
pub const CONSTRUCTS: [(&str, &str, bool, bool); 27] = [
    ("ident", "{}", false, true),
    ("operand", "({} + 0)", false, true),
    ("macro-range", "[{}].map(x, x)[0]", false, true),
    ("macro-body", "[0].map(x, {})[0]", true, true),
    ("call-arg", "int({})", false, true),
    ("has", "(has({}) ? 0 : 1000) + {}", true, true),
    ("coalesce", "coalesce({}, 1000)", true, true),
    ("fstring", "int(f'{{}}')", false, true),
    ("index", "[{}][0]", false, true),
    ("map-value", "{'k': {}}.k", false, true),
    ("ternary-arm", "(true ? {} : 1000)", false, true),
    ("match-arm", "(match 1 { case 1: {}, case _: 1000 })", false, true),
    // every macro, on lists and on maps, with the reference in each of its code arguments
    ("all-body", "([0].all(x, {} != -1) ? 0 : 1000)", true, false),
    ("exists-body", "([0].exists(x, {} == -1) ? 1000 : 0)", true, false),
    ("exists_one-body", "([0].exists_one(x, {} == -1) ? 1000 : 0)", true, false),
    ("filter-body", "([0].filter(x, {} == -1) == [] ? 0 : 1000)", true, false),
    ("map3-predicate", "([0].map(x, {} == -1, x) == [] ? 0 : 1000)", true, false),
    ("map3-body", "[0].map(x, true, {})[0]", true, true),
    ("reduce-step", "[0].reduce(acc, x, acc + {}, 0)", true, true),
    ("reduce-seed", "[0].reduce(acc, x, acc, {})", true, true),
    ("map-on-map-body", "{'k': 1}.map(x, {})[0]", true, true),
    ("map3-on-map-predicate", "({'k': 1}.map(x, {} == -1, x) == [] ? 0 : 1000)", true, false),
    ("filter-on-map-body", "({'k': 1}.filter(x, {} == -1) == [] ? 0 : 1000)", true, false),
    ("match-scrutinee", "(match {} { case -1: 1000, case _: 0 })", false, false),
    ("ternary-condition", "({} == -1 ? 1000 : 0)", false, false),
    ("sort-element", "[{}].sort()[0]", false, true),
    ("function-arg", "min({}, 100000)", false, true),
];

fn reference(construct: usize, target: &str) -> String {
    let (name, tpl, _, _) = CONSTRUCTS[construct];
    if name == "fstring" {
        // f-strings convert through string(): int(f'{p}') round-trips an int
        return format!("int(f'{{{}}}')", target);
    }
    tpl.replace("{}", target)
}

fn exec_on(ctxc: &CelContext, entry: &str, small_stack: bool) -> Out {
    if small_stack {
        let c = ctxc.clone();
        let e = entry.to_string();
        // CelContext is Send: run on a default-size (2 MiB) thread
        let h = std::thread::Builder::new().spawn(move || {
            let mut c = c;
            let b = BindContext::new();
            mon::exec_prog(&mut c, &e, &b)
        });
        match h.map(|h| h.join()) {
            Ok(Ok(o)) => o,
            _ => Out::Panic("thread died".into(), "harness".into()),
        }
    } else {
        let mut c = ctxc.clone();
        let b = BindContext::new();
        mon::exec_prog(&mut c, entry, &b)
    }
}

pub fn graph_case(rep: &mut Rep, n: usize, adj: u32, constructs: &[usize], what: &str) {
    // node i has an edge to j iff bit i*n+j of adj
    let edges = |i: usize| -> Vec<usize> { (0..n).filter(|j| adj & (1 << (i * n + j)) != 0).collect() };
    // cycle detection over the part reachable from the entry
    let mut state = vec![0u8; n]; // 0 new, 1 on stack, 2 done
    let mut cyclic = false;
    fn dfs(i: usize, edges: &dyn Fn(usize) -> Vec<usize>, state: &mut Vec<u8>, cyclic: &mut bool) {
        state[i] = 1;
        for j in edges(i) {
            if state[j] == 1 {
                *cyclic = true;
            } else if state[j] == 0 {
                dfs(j, edges, state, cyclic);
            }
        }
        state[i] = 2;
    }
    dfs(0, &edges, &mut state, &mut cyclic);
    let maxdeg = (0..n).map(|i| edges(i).len()).max().unwrap_or(0);
    // the construct of every edge
    let mut con_of = vec![vec![0usize; n]; n];
    for i in 0..n {
        for (k, j) in edges(i).into_iter().enumerate() {
            let mut con = constructs[(i * n + j + k + adj as usize) % constructs.len()];
            // work budget: constructs that turn a failure into a value let evaluation go on after a
            // cycle was hit; with fan-out >= 2 that is exponential work, which is not what is judged here
            if cyclic && maxdeg >= 2 && CONSTRUCTS[con].2 {
                con = 0;
            }
            con_of[i][j] = con;
        }
    }
    // model values of the acyclic case
    let mut val: Vec<Option<i64>> = vec![None; n];
    fn value(i: usize, edges: &dyn Fn(usize) -> Vec<usize>, con_of: &Vec<Vec<usize>>, val: &mut Vec<Option<i64>>) -> i64 {
        if let Some(v) = val[i] {
            return v;
        }
        let mut v = (i + 1) as i64;
        for j in edges(i) {
            let vj = value(j, edges, con_of, val);
            if CONSTRUCTS[con_of[i][j]].3 {
                v += vj;
            }
        }
        val[i] = Some(v);
        v
    }
    let want = if cyclic { 0 } else { value(0, &edges, &con_of, &mut val) };
    let mut c = CelContext::new();
    let mut sources = Vec::new();
    for i in 0..n {
        let mut src = format!("{}", i + 1);
        for j in edges(i) {
            src.push_str(&format!(" + {}", reference(con_of[i][j], &format!("p{}", j))));
        }
        if let Err(e) = c.add_program_str(&format!("p{}", i), &src) {
            rep.viol("graph|compile", &format!("{} does not compile: {}", src, e), json!({"source": src}));
            return;
        }
        sources.push(format!("p{} := {}", i, src));
    }
    rep.mark(what);
    for small in [false, true] {
        let out = exec_on(&c, "p0", small);
        rep.eval();
        rep.count(if cyclic { "graphs_cyclic" } else { "graphs_acyclic" });
        let ok = match (&out, cyclic) {
            (Out::Panic(..), _) => false,
            (Out::Err(_), true) => true,
            (Out::Val(v), false) => canon(v) == canon(&want.into()),
            _ => false,
        };
        if !ok {
            let class = match (&out, cyclic) {
                (Out::Panic(..), _) => "panic",
                (Out::Val(_), true) => "cycle-gave-value",
                (Out::Err(_), false) => "acyclic-failed",
                _ => "wrong-value",
            };
            rep.viol(
                &format!("graph|{}|{}", class, what),
                &format!("programs {:?}: entry p0 gave {} ({}); expected {}", sources, out.show(), if small { "2 MiB thread" } else { "main thread" },
                    if cyclic { "an error (reference cycle)".to_string() } else { format!("{}", want) }),
                json!({"programs": sources, "cyclic": cyclic}),
            );
        }
    }
    rep.distinct(&format!("{}|{:?}", adj, sources), edges(0).len() >= 1);
    if adj % 257 == 0 {
        rep.sample(|| json!({"stage": what, "programs": sources, "cyclic": cyclic}));
    }
}

pub fn run(ctx: &mut Ctx) {
    // ---- name-collision configurations ------------------------------------------------------------
    // identifier position: type name vs variable vs program
    // every type name (and one plain name) x variable bound? x program stored? x every position an identifier can
    // stand in. Oracle: the same source with the identifier replaced by a fresh variable `vv` bound to the value
    // the resolution order prescribes (type value > variable > stored program evaluated under the same bindings).
    const ID_NAMES: [&str; 13] = ["int", "uint", "double", "float", "bool", "string", "bytes", "type", "timestamp", "duration", "dyn", "null_type", "foo"];
    const POSITIONS: [&str; 22] = [
        "@", "[@][0]", "[1].map(x, @)[0]", "same(@)", "type(@)", "dyn(@)", "f'{@}'", "f'a{@}b{@}'", "[@, @].size() == 2 ? @ : 0", "{'k': @}.k",
        "{'k': @}['k']", "@ == @", "[@].contains(@)", "'x'.same(@)", "same(same(@))", "[@].map(y, same(y))[0]", "[1].map(y, same(@))[0]",
        "coalesce(@)", "coalesce(null, @)", "true ? @ : 1", "[[@]][0][0]", "same([@])[0]",
    ];
    let np = POSITIONS.len() as u64;
    ctx.stage("resolve-identifier", ID_NAMES.len() as u64 * 4 * np, false, |idx, _rng, rep| {
        let pos = (idx % np) as usize;
        let var_bound = (idx / np) & 1 != 0;
        let prog_stored = (idx / np) & 2 != 0;
        let name = ID_NAMES[(idx / np / 4) as usize];
        let is_type = name != "foo";
        let src = POSITIONS[pos].replace('@', name);
        let ref_src = POSITIONS[pos].replace('@', "vv");
        let same = |this: CelValue, mut args: Vec<CelValue>| -> CelValue {
            let _ = this;
            args.pop().unwrap_or(CelValue::from_null())
        };
        let mut c = CelContext::new();
        let mut cr = CelContext::new();
        if c.add_program_str("main", &src).is_err() || cr.add_program_str("main", &ref_src).is_err() {
            rep.count("resolution_position_rejected");
            return;
        }
        if prog_stored {
            c.add_program_str(name, "other + 100").unwrap();
        }
        let mut b = BindContext::new();
        b.bind_param("other", 1.into());
        b.bind_func("same", &same);
        if var_bound {
            b.bind_param(name, 7.into());
        }
        let out = mon::exec_prog(&mut c, "main", &b);
        rep.eval();
        rep.count("resolution_cases");
        // the type value is what the bare type name denotes in a context without any binding
        let type_value = if is_type {
            match mon::run1(name, &[]) {
                Out::Val(v) => Some(v),
                _ => None,
            }
        } else {
            None
        };
        let resolved: Option<CelValue> = if type_value.is_some() {
            type_value
        } else if var_bound {
            Some(7.into())
        } else if prog_stored {
            Some(101.into()) // evaluated under the same bindings
        } else {
            None
        };
        let ok = match &resolved {
            Some(v) => {
                let mut br = BindContext::new();
                br.bind_param("other", 1.into());
                br.bind_func("same", &same);
                br.bind_param("vv", v.clone());
                let want = mon::exec_prog(&mut cr, "main", &br);
                want.canon_anyerr() == out.canon_anyerr()
            }
            // unresolvable: an error, except where a construct absorbs absence
            None => out.is_err() || POSITIONS[pos].contains("coalesce"),
        };
        if !ok {
            rep.viol(
                &format!("resolve|identifier|type={}|var={}|prog={}|pos={}", is_type, var_bound, prog_stored, POSITIONS[pos]),
                &format!("`{}` with type-name={}, variable bound={}, program stored={}: expected what `{}` gives with vv = {:?}, got {}", src, is_type, var_bound, prog_stored, ref_src, resolved.as_ref().map(canon), out.show()),
                json!({"source": src}),
            );
        }
        rep.distinct(&format!("{}|{}|{}", src, var_bound, prog_stored), true);
        rep.sample(|| json!({"stage":"resolve-identifier","source":src,"variable_bound":var_bound,"program_stored":prog_stored,"outcome":out.show()}));
    });

    // call position: bound function > macro > type constructor (non-constant argument)
    ctx.stage("resolve-call", 4 * 2 * 2, false, |idx, _rng, rep| {
        let name = ["int", "has", "size", "myname"][(idx % 4) as usize];
        let func_bound = (idx / 4) & 1 != 0;
        let macro_bound = (idx / 8) & 1 != 0;
        let f = |_this: CelValue, _args: Vec<CelValue>| -> CelValue { "from-function".into() };
        let m: &RsCelMacro = &|_i, _this, _args| "from-macro".into();
        let mut c = CelContext::new();
        let src = format!("{}(arg)", name);
        c.add_program_str("main", &src).unwrap();
        let mut b = BindContext::new();
        b.bind_param("arg", "41".into());
        if func_bound {
            b.bind_func(name, &f);
        }
        if macro_bound {
            b.bind_macro(name, m);
        }
        let out = mon::exec_prog(&mut c, "main", &b);
        rep.eval();
        rep.count("resolution_cases");
        // defaults: `has` is a macro, `size` a function, `int` a type constructor
        let want: Option<CelValue> = if func_bound {
            Some("from-function".into())
        } else if name == "size" {
            Some(2u64.into())
        } else if macro_bound {
            Some("from-macro".into())
        } else if name == "has" {
            Some(true.into())
        } else if name == "int" {
            Some(41.into())
        } else {
            None
        };
        let ok = match (&want, &out) {
            (Some(v), Out::Val(o)) => canon(v) == canon(o),
            (None, Out::Err(_)) => true,
            _ => false,
        };
        if !ok {
            rep.viol(
                &format!("resolve|call|{}|func={}|macro={}", name, func_bound, macro_bound),
                &format!("`{}` with user function bound={}, user macro bound={}: expected {:?}, got {}", src, func_bound, macro_bound, want.as_ref().map(canon), out.show()),
                json!({"source": src}),
            );
        }
        rep.distinct(&format!("{}|{}|{}", src, func_bound, macro_bound), true);
    });

    // ... also when the method is a macro or a function called with arguments: the field's value is what gets "called",
    // so the call fails, for a bound map exactly as for a literal map; without the field the method runs
    const METHOD_CALLS: [(&str, &str); 12] = [
        ("filter", "(k, true)"), ("map", "(k, k)"), ("all", "(k, true)"), ("exists", "(k, true)"), ("exists_one", "(k, true)"),
        ("reduce", "(acc, k, acc, 0)"), ("has", "(k)"), ("coalesce", "(1)"), ("size", "()"), ("contains", "('a')"), ("max", "(1)"), ("sort", "()"),
    ];
    ctx.stage("resolve-field-call", METHOD_CALLS.len() as u64 * 2, false, |idx, _rng, rep| {
        let (name, args) = METHOD_CALLS[idx as usize / 2];
        let with_field = idx % 2 == 0;
        let m = if with_field { vals::mk_map(&[(name, 7.into()), ("other", 1.into())]) } else { vals::mk_map(&[("other", 1.into())]) };
        let bound_src = format!("m.{}{}", name, args);
        let lit_src = format!("{}.{}{}", vals::spell(&m).unwrap(), name, args);
        let nested_src = format!("[m][0].{}{}", name, args);
        let binds = vec![("m".to_string(), m.clone())];
        let bound = mon::run1(&bound_src, &binds);
        let lit = mon::run1(&lit_src, &[]);
        let nested = mon::run1(&nested_src, &binds);
        rep.evals += 3;
        rep.count("resolution_cases");
        if with_field {
            for (form, src, out) in [("bound", &bound_src, &bound), ("literal", &lit_src, &lit), ("nested", &nested_src, &nested)] {
                if !out.is_err() {
                    rep.viol(
                        &format!("resolve|field-call|{}|{}|method-won", name, form),
                        &format!("`{}` on a map with a field `{}` = 7: the field wins, so the call must fail, got {}", src, name, out.show()),
                        json!({"source": src, "m": canon(&m)}),
                    );
                }
            }
        } else if bound.canon_anyerr() != lit.canon_anyerr() || bound.canon_anyerr() != nested.canon_anyerr() {
            rep.viol(
                &format!("resolve|field-call|{}|forms-differ", name),
                &format!("`{}` gives {}, `{}` gives {}, `{}` gives {}", bound_src, bound.show(), lit_src, lit.show(), nested_src, nested.show()),
                json!({"source": bound_src, "m": canon(&m)}),
            );
        }
        rep.distinct(&format!("{}|{}", bound_src, with_field), true);
    });

    // a map field wins over a method of the same name
    ctx.stage("resolve-field", 6, false, |idx, _rng, rep| {
        let f = |_this: CelValue, _args: Vec<CelValue>| -> CelValue { "from-function".into() };
        let cases: [(&str, bool, Result<CelValue, bool>); 6] = [
            ("m.size", true, Ok(5.into())),
            ("m.userfn", true, Ok(6.into())),
            ("m.contains", true, Ok(7.into())),
            ("m.userfn()", false, Ok("from-function".into())),
            ("m.size", false, Err(true)), // absent field (Attribute)
            ("m['size'] + m.map", true, Ok(13.into())),
        ];
        let (src, has_fields, want) = &cases[idx as usize];
        let mut c = CelContext::new();
        c.add_program_str("main", src).unwrap();
        let mut b = BindContext::new();
        b.bind_func("userfn", &f);
        let m = if *has_fields {
            vals::mk_map(&[("size", 5.into()), ("userfn", 6.into()), ("contains", 7.into()), ("map", 8.into())])
        } else {
            vals::mk_map(&[("other", 1.into())])
        };
        b.bind_param("m", m);
        let out = mon::exec_prog(&mut c, "main", &b);
        rep.eval();
        rep.count("resolution_cases");
        let ok = match (want, &out) {
            (Ok(v), Out::Val(o)) => canon(v) == canon(o),
            (Err(_), Out::Err(CelError::Attribute { .. })) => true,
            _ => false,
        };
        if !ok {
            rep.viol(&format!("resolve|field|{}", src), &format!("`{}` (fields present: {}): got {}", src, has_fields, out.show()), json!({"source": src}));
        }
        rep.distinct(src, true);
    });

    // rebinding / re-adding replaces; values bound from JSON equal values bound directly
    let nj = ctx.n(20_000, 200_000);
    ctx.stage("rebind-json", nj, true, |_idx, rng, rep| {
        let mut c = CelContext::new();
        let mut b = BindContext::new();
        let v1 = vals::random_value(rng, 1);
        let v2 = vals::random_value(rng, 1);
        c.add_program_str("p", "x").unwrap();
        c.add_program_str("main", "[p, x, helper]").unwrap();
        c.add_program_str("helper", "1").unwrap();
        b.bind_param("x", v1.clone());
        let first = mon::exec_prog(&mut c, "main", &b);
        b.bind_param("x", v2.clone());
        c.add_program_str("helper", "2").unwrap();
        let second = mon::exec_prog(&mut c, "main", &b);
        rep.eval();
        rep.eval();
        let w1 = CelValue::from_list(vec![v1.clone(), v1.clone(), 1.into()]);
        let w2 = CelValue::from_list(vec![v2.clone(), v2.clone(), 2.into()]);
        if first.canon() != format!("{}", canon(&w1)) || second.canon() != canon(&w2) {
            rep.viol(
                "rebind|stale",
                &format!("after rebinding x and re-adding helper: first {} (expected {}), second {} (expected {})", first.show(), canon(&w1), second.show(), canon(&w2)),
                json!({"v1": canon(&v1), "v2": canon(&v2)}),
            );
        }
        // JSON
        let j = random_json(rng, 2);
        let direct = json_to_cel(&j);
        let exprs = ["v", "v == v", "type(v)", "[v][0]", "has(v.a) ? v.a : v", "v.map(x, x)", "size(v)", "v + v", "v[0]", "string(v)", "v in [v]", "v.a.b"];
        let e = *rng.pick(&exprs);
        let mut bj = BindContext::new();
        let obj = json!({"v": j.clone(), "w": 1});
        let r = bj.bind_params_from_json_obj(obj);
        let mut bd = BindContext::new();
        bd.bind_param("v", direct.clone());
        bd.bind_param("w", 1.into());
        let mut cj = CelContext::new();
        cj.add_program_str("main", e).unwrap();
        let oj = if r.is_ok() { mon::exec_prog(&mut cj, "main", &bj) } else { Out::Panic("bind_params_from_json_obj failed".into(), "".into()) };
        let od = mon::exec_prog(&mut cj, "main", &bd);
        rep.eval();
        rep.count("json_bindings_compared");
        if oj.canon() != od.canon() {
            rep.viol(
                "json-binding|differs",
                &format!("`{}` with v bound from JSON {} gives {} but bound directly as {} gives {}", e, j, oj.show(), canon(&direct), od.show()),
                json!({"source": e, "json": j.to_string()}),
            );
        }
        // binding something that is not an object is an error, not a panic
        if let Err((m, l)) = mon::catch(|| BindContext::new().bind_params_from_json_obj(json!([1, 2]))) {
            rep.viol("json-binding|panic", &format!("{} at {}", m, l), json!({}));
        }
        rep.distinct(&format!("{}|{}", e, j), true);
    });

    // ---- reference graphs: exhaustive up to 4 nodes -------------------------------------------------
    let all: Vec<usize> = (0..CONSTRUCTS.len()).collect();
    // every construct x every 1- and 2-cycle, and acyclic 2-chains
    ctx.stage("cycles-per-construct", (CONSTRUCTS.len() * 5) as u64, false, |idx, _rng, rep| {
        let con = idx as usize / 5;
        let which = idx as usize % 5;
        let (n, adj) = match which {
            0 => (1, 0b1),        // p0 -> p0
            1 => (2, 0b0110),     // p0 -> p1 -> p0
            2 => (2, 0b0010),     // p0 -> p1 (acyclic)
            3 => (3, 0b001_100_010u32), // p0->p1->p2->p0 : bits i*3+j : (0,1)=bit1,(1,2)=bit5,(2,0)=bit6
            _ => (3, 0b000_100_010u32), // p0->p1->p2 acyclic
        };
        graph_case(rep, n, adj, &[con], &format!("cycle-{}", CONSTRUCTS[con].0));
        rep.count(&format!("construct/{}", CONSTRUCTS[con].0));
    });
    ctx.stage("graphs-3", 512, false, |idx, _rng, rep| {
        graph_case(rep, 3, idx as u32, &all, "graph3");
    });
    let quick = ctx.quick();
    ctx.stage("graphs-4", 65536, false, |idx, _rng, rep| {
        // quick: a fixed eighth of the 4-node graphs; thorough: all of them
        if quick && idx % 8 != 3 {
            return;
        }
        graph_case(rep, 4, idx as u32, &all, "graph4");
    });

    // ---- chains 1..64, one referencing construct per link ------------------------------------------
    ctx.stage("chains", (CONSTRUCTS.len() * 64) as u64, false, |idx, _rng, rep| {
        let con = idx as usize % CONSTRUCTS.len();
        let len = 1 + idx as usize / CONSTRUCTS.len();
        let cname = CONSTRUCTS[con].0;
        let mut c = CelContext::new();
        // `len` links = a chain `len + 1` programs deep. The f-string chain stays a string so that
        // each link is one referencing construct (int(f'..') would stack two).
        let fstr = cname == "fstring";
        c.add_program_str("p0", if fstr { "'1'" } else { "1" }).unwrap();
        for i in 1..=len {
            let src = if fstr { format!("f'{{p{}}}'", i - 1) } else { format!("{} + 1", reference(con, &format!("p{}", i - 1))) };
            c.add_program_str(&format!("p{}", i), &src).unwrap();
        }
        rep.mark(&format!("chain-{}", cname));
        // `has` references its target twice per link: 2^len work, keep it short
        if cname == "has" && len > 14 {
            return;
        }
        for small in [false, true] {
            let out = exec_on(&c, &format!("p{}", len), small);
            rep.eval();
            rep.count("chain_executions");
            let want: CelValue = if fstr { "1".into() } else if CONSTRUCTS[con].3 { ((len + 1) as i64).into() } else { 1.into() };
            let ok = match &out {
                Out::Panic(..) => false,
                Out::Val(v) => canon(v) == canon(&want),
                // 16 programs deep (15 links) must work; deeper chains may hit the depth limit
                Out::Err(_) => len > 15,
            };
            if !ok {
                rep.viol(
                    &format!("chain|{}|{}", cname, match &out { Out::Panic(..) => "panic", Out::Val(_) => "wrong-value", Out::Err(_) => "fails-within-16" }),
                    &format!("chain of {} links through `{}`: expected {}, got {}", len, CONSTRUCTS[con].1, canon(&want), out.show()),
                    json!({"construct": cname, "links": len}),
                );
            }
            if out.is_val() {
                rep.count(&format!("chain_ok/{}", cname));
            }
        }
        rep.distinct(&format!("{}-{}", cname, len), len >= 2);
    });

    // ---- loop iterations do not consume the depth budget; frames are released ------------------------
    let loops = [
        "l.map(x, x + 1)",
        "l.map(x, helper + x)",
        "l.filter(x, x > 0).map(x, x)",
        "l.all(x, l2.exists(y, y == x || true))",
        "l.reduce(acc, x, acc + x, 0)",
        "l.map(x, [x].map(y, y + helper)[0])",
        "l.map(x, int(string(x)))",
        "l.map(x, f'{x}')",
    ];
    ctx.stage("loop-depth", loops.len() as u64, false, |idx, _rng, rep| {
        let src = loops[idx as usize];
        let mut c = CelContext::new();
        c.add_program_str("main", src).unwrap();
        c.add_program_str("helper", "1").unwrap();
        let mut maxd: Vec<usize> = Vec::new();
        for n in [1usize, 8, 64, 200] {
            let l = CelValue::from_list((0..n as i64).map(CelValue::from_int).collect());
            let binds = vec![("l".to_string(), l), ("l2".to_string(), CelValue::from_list(vec![1.into(), 2.into(), 3.into()]))];
            let (out, tr) = hookmon::with_trace(true, || mon::run_in(&mut c, &binds));
            rep.eval();
            rep.add("hook_frames", tr.frames);
            if !out.is_val() {
                rep.viol("loop-depth|fails", &format!("`{}` over {} elements: {}", src, n, out.show()), json!({"source": src, "elements": n}));
            }
            if tr.open != 0 {
                rep.viol("loop-depth|frames-open", &format!("{} frames still open after `{}`", tr.open, src), json!({"source": src}));
            }
            maxd.push(tr.max_depth);
        }
        if maxd.iter().any(|d| *d != maxd[0]) {
            rep.viol(
                "loop-depth|grows",
                &format!("`{}`: maximum call depth for 1 / 8 / 64 / 200 elements is {:?}: iterations consume the depth budget", src, maxd),
                json!({"source": src, "max_depths": maxd}),
            );
        }
        rep.distinct(src, true);
        rep.sample(|| json!({"stage":"loop-depth","source":src,"max_depth_per_list_size":maxd}));
    });
}

fn random_json(rng: &mut Rng, depth: u32) -> serde_json::Value {
    match rng.below(if depth > 0 { 10 } else { 7 }) {
        0 => json!(rng.next() as i64),
        1 => json!(rng.next()),
        2 => json!(rng.range(-5, 5)),
        3 => json!(rng.range(-50, 50) as f64 / 4.0),
        4 => json!(vals::random_string(rng, 4)),
        5 => json!(rng.chance(1, 2)),
        6 => serde_json::Value::Null,
        7 => serde_json::Value::Array((0..rng.below(4)).map(|_| random_json(rng, depth - 1)).collect()),
        _ => {
            let mut m = serde_json::Map::new();
            for _ in 0..rng.below(4) {
                m.insert(rng.pick(&["a", "b", "é", ""]).to_string(), random_json(rng, depth - 1));
            }
            serde_json::Value::Object(m)
        }
    }
}

/// the hand conversion the statement implies: integers stay integers, other numbers are doubles
fn json_to_cel(j: &serde_json::Value) -> CelValue {
    match j {
        serde_json::Value::Null => CelValue::from_null(),
        serde_json::Value::Bool(b) => (*b).into(),
        serde_json::Value::Number(n) => {
            if let Some(i) = n.as_i64() {
                i.into()
            } else if let Some(u) = n.as_u64() {
                u.into()
            } else {
                n.as_f64().unwrap().into()
            }
        }
        serde_json::Value::String(s) => s.as_str().into(),
        serde_json::Value::Array(a) => CelValue::from_list(a.iter().map(json_to_cel).collect()),
        serde_json::Value::Object(o) => {
            let mut m = std::collections::HashMap::new();
            for (k, v) in o {
                m.insert(k.clone(), json_to_cel(v));
            }
            CelValue::from_map(m)
        }
    }
}
