//! C04 - equality and ordering obey their algebraic laws; sort / min / max agree with them.
//! Oracle: laws over observed outcomes + an independent model order per group.

use std::cmp::Ordering;

use rscel::{CelContext, CelValue};
use serde_json::json;

use crate::mon::{self, canon, Ctx, Out, Rep};
use crate::rng::Rng;
use crate::vals;

#[derive(Clone, Copy, PartialEq, Eq, Debug)]
enum Group {
    Num, // int, uint, double
    Bool,
    Str,
    Bytes,
    Ts,
    Dur,
    List,
    Map,
    Null,
    Type,
}

fn group(v: &CelValue) -> Group {
    match v {
        CelValue::Int(_) | CelValue::UInt(_) | CelValue::Float(_) => Group::Num,
        CelValue::Bool(_) => Group::Bool,
        CelValue::String(_) => Group::Str,
        CelValue::Bytes(_) => Group::Bytes,
        CelValue::TimeStamp(_) => Group::Ts,
        CelValue::Duration(_) => Group::Dur,
        CelValue::List(_) => Group::List,
        CelValue::Map(_) => Group::Map,
        CelValue::Null => Group::Null,
        _ => Group::Type,
    }
}

fn has_nan(v: &CelValue) -> bool {
    match v {
        CelValue::Float(f) => f.is_nan(),
        CelValue::List(l) => l.iter().any(has_nan),
        CelValue::Map(m) => m.values().any(has_nan),
        _ => false,
    }
}

/// The model order for two values of the same comparable group; None when the statement does
/// not define it (NaN, containers, null, types).
pub fn model_cmp(a: &CelValue, b: &CelValue) -> Option<Ordering> {
    use CelValue::*;
    match (a, b) {
        (Int(x), Int(y)) => Some(x.cmp(y)),
        (UInt(x), UInt(y)) => Some(x.cmp(y)),
        (Int(x), UInt(y)) => Some((*x as i128).cmp(&(*y as i128))),
        (UInt(x), Int(y)) => Some((*x as i128).cmp(&(*y as i128))),
        (Float(x), Float(y)) => x.partial_cmp(y),
        // an integer meets a double as its nearest double
        (Int(x), Float(y)) => (*x as f64).partial_cmp(y),
        (Float(x), Int(y)) => x.partial_cmp(&(*y as f64)),
        (UInt(x), Float(y)) => (*x as f64).partial_cmp(y),
        (Float(x), UInt(y)) => x.partial_cmp(&(*y as f64)),
        (Bool(x), Bool(y)) => Some(x.cmp(y)),
        (String(x), String(y)) => Some(x.as_bytes().cmp(y.as_bytes())),
        (Bytes(x), Bytes(y)) => Some(x.as_slice().cmp(y.as_slice())),
        (TimeStamp(x), TimeStamp(y)) => Some(x.cmp(y)),
        (Duration(x), Duration(y)) => Some(x.cmp(y)),
        _ => None,
    }
}

const RELS: [&str; 6] = ["==", "!=", "<", "<=", ">", ">="];

fn as_bool(o: &Out) -> Option<bool> {
    match o {
        Out::Val(CelValue::Bool(b)) => Some(*b),
        _ => None,
    }
}

fn tyname(v: &CelValue) -> &'static str {
    mon::vtype(v)
}

struct Progs {
    rel: Vec<CelContext>,
}

fn progs() -> Progs {
    let mut rel = Vec::new();
    for op in RELS {
        let mut c = CelContext::new();
        c.add_program_str("main", &format!("a {} b", op)).expect("compiles");
        rel.push(c);
    }
    Progs { rel }
}

fn six(p: &mut Progs, a: &CelValue, b: &CelValue) -> Vec<Out> {
    let binds = vec![("a".to_string(), a.clone()), ("b".to_string(), b.clone())];
    (0..6).map(|k| mon::run_in(&mut p.rel[k], &binds)).collect()
}

fn six_lit(sa: &str, sb: &str) -> Vec<Out> {
    RELS.iter().map(|op| mon::run1(&format!("{} {} {}", sa, op, sb), &[])).collect()
}

fn check_pair(rep: &mut Rep, form: &str, a: &CelValue, b: &CelValue, o: &[Out], rev_eq: Option<&Out>) {
    rep.add("_evals", 6);
    for _ in 0..6 {
        rep.eval();
    }
    let case = || json!({"form": form, "a": canon(a), "b": canon(b),
        "outcomes": RELS.iter().zip(o.iter()).map(|(r, x)| format!("{} -> {}", r, x.show())).collect::<Vec<_>>()});
    let types = format!("{},{}", tyname(a), tyname(b));
    for (k, x) in o.iter().enumerate() {
        if x.is_panic() {
            rep.viol(&format!("panic|op={}|{}", RELS[k], types), &format!("a {} b panicked: {}", RELS[k], x.show()), case());
            return;
        }
    }
    // complement
    match (as_bool(&o[0]), as_bool(&o[1])) {
        (Some(e), Some(n)) => {
            if e == n {
                rep.viol(&format!("complement|{}", types), &format!("== gave {} and != gave {}", e, n), case());
            }
        }
        (None, None) if o[0].is_err() && o[1].is_err() => {}
        _ => rep.viol(&format!("complement-shape|{}", types), "== and != disagree on failing / non-boolean result", case()),
    }
    // symmetry of ==
    if let Some(r) = rev_eq {
        if as_bool(&o[0]) != as_bool(r) || o[0].is_err() != r.is_err() {
            rep.viol(&format!("symmetry|{}", types), &format!("a == b is {} but b == a is {}", o[0].show(), r.show()), case());
        }
    }
    let (ga, gb) = (group(a), group(b));
    let nan = has_nan(a) || has_nan(b);
    // model order for comparable NaN-free pairs
    if let Some(ord) = model_cmp(a, b) {
        rep.count(&format!("comparable/{}", types));
        let want = [
            ord == Ordering::Equal,
            ord != Ordering::Equal,
            ord == Ordering::Less,
            ord != Ordering::Greater,
            ord == Ordering::Greater,
            ord != Ordering::Less,
        ];
        for k in 0..6 {
            if as_bool(&o[k]) != Some(want[k]) {
                rep.viol(
                    &format!("order-model|op={}|{}", RELS[k], types),
                    &format!("a {} b: model says {} (a {:?} b), observed {}", RELS[k], want[k], ord, o[k].show()),
                    case(),
                );
            }
        }
    } else if !nan && ga != gb {
        // clearly unrelated types: every order operator must fail. bool vs number is widened by
        // the code and not covered by the statement.
        let boolnum = (ga == Group::Bool && gb == Group::Num) || (ga == Group::Num && gb == Group::Bool);
        if !boolnum {
            rep.count("unrelated_pairs");
            for k in 2..6 {
                if !o[k].is_err() {
                    rep.viol(
                        &format!("unrelated|op={}|{}", RELS[k], types),
                        &format!("a {} b between unrelated types should be an error, got {}", RELS[k], o[k].show()),
                        case(),
                    );
                }
            }
        }
    }
}

fn numeric_group_values() -> Vec<CelValue> {
    let mut v: Vec<CelValue> = Vec::new();
    v.extend(vals::int_pool().into_iter().map(CelValue::from_int));
    v.extend(vals::uint_pool().into_iter().map(CelValue::from_uint));
    v.extend(vals::double_pool().into_iter().map(CelValue::from_float));
    v
}

fn all_values() -> Vec<CelValue> {
    let mut v = numeric_group_values();
    v.push(true.into());
    v.push(false.into());
    v.extend(vals::string_pool().into_iter().take(28).map(CelValue::from_string));
    v.extend(vals::bytes_pool().into_iter().map(CelValue::from_bytes));
    v.extend(vals::timestamp_pool().into_iter().map(CelValue::from_timestamp));
    v.extend(vals::duration_pool().into_iter().map(CelValue::from_duration));
    v.extend(vals::list_pool());
    v.extend(vals::map_pool());
    v.push(CelValue::from_null());
    v.extend(vals::type_pool().into_iter().take(4));
    v
}

fn random_of_group(rng: &mut Rng, g: usize) -> CelValue {
    match g {
        0 => match rng.below(3) {
            0 => CelValue::from_int(if rng.chance(1, 2) { rng.next() as i64 } else { rng.range(-50, 50) }),
            1 => CelValue::from_uint(if rng.chance(1, 2) { rng.next() } else { rng.below(50) as u64 }),
            _ => CelValue::from_int(*rng.pick(&vals::int_pool())),
        },
        1 => {
            let f = if rng.chance(1, 2) { rng.f64_bits() } else { rng.range(-100, 100) as f64 / 4.0 };
            CelValue::from_float(if f.is_nan() { 0.5 } else { f })
        }
        2 => CelValue::from_string(vals::random_string(rng, 5)),
        3 => {
            let n = rng.below(5);
            CelValue::from_bytes((0..n).map(|_| *rng.pick(&[0u8, 1, 0x61, 0x7f, 0x80, 0xff])).collect())
        }
        4 => CelValue::from_bool(rng.chance(1, 2)),
        5 => {
            let secs = rng.range(-62135596800, 253402300799);
            CelValue::from_timestamp(vals::ts(secs, (rng.below(3) as u32) * 499_999_999))
        }
        _ => CelValue::from_duration(
            chrono::Duration::seconds(rng.range(-1_000_000, 1_000_000)) + chrono::Duration::nanoseconds(rng.range(-5, 5)),
        ),
    }
}

fn check_sorted(rep: &mut Rep, what: &str, input: &[CelValue], out: &Out, grp: usize) {
    rep.eval();
    let case = || json!({"call": what, "input": input.iter().map(canon).collect::<Vec<_>>(), "outcome": out.show()});
    match out {
        Out::Val(CelValue::List(l)) => {
            let mut a: Vec<String> = input.iter().map(canon).collect();
            let mut b: Vec<String> = l.iter().map(canon).collect();
            a.sort();
            b.sort();
            if a != b {
                rep.viol(&format!("sort-permutation|group={}", grp), "sort output is not a permutation of its input", case());
                return;
            }
            for w in l.windows(2) {
                if model_cmp(&w[0], &w[1]) == Some(Ordering::Greater) {
                    rep.viol(
                        &format!("sort-order|group={}", grp),
                        &format!("adjacent inversion: {} before {}", canon(&w[0]), canon(&w[1])),
                        case(),
                    );
                    return;
                }
            }
        }
        other => rep.viol(
            &format!("sort-outcome|group={}|{}", grp, other.class()),
            &format!("sort of mutually comparable elements gave {}", other.show()),
            case(),
        ),
    }
}

pub fn run(ctx: &mut Ctx) {
    let all = all_values();
    let n = all.len() as u64;
    let mut p = progs();

    // ---- every ordered pair of the grid, variable form; literal form where a spelling exists --
    ctx.stage("pairs", n, false, |idx, _rng, rep| {
        let a = &all[idx as usize];
        let sa = vals::spell(a);
        for b in &all {
            let o = six(&mut p, a, b);
            let binds = vec![("a".to_string(), b.clone()), ("b".to_string(), a.clone())];
            let rev = mon::run_in(&mut p.rel[0], &binds);
            check_pair(rep, "variable", a, b, &o, Some(&rev));
            if let (Some(sa), Some(sb)) = (&sa, vals::spell(b)) {
                if sa.len() < 80 && sb.len() < 80 {
                    let o2 = six_lit(sa, &sb);
                    check_pair(rep, "literal", a, b, &o2, None);
                }
            }
            rep.distinct(&format!("{}|{}", canon(a), canon(b)), true);
        }
        // reflexivity on NaN-free values of every type
        if !has_nan(a) {
            let o = six(&mut p, a, a);
            if as_bool(&o[0]) != Some(true) {
                rep.viol(&format!("reflexive|{}", tyname(a)), &format!("a == a is {} for {}", o[0].show(), canon(a)), json!({"a": canon(a)}));
            }
        }
        rep.sample(|| json!({"stage":"pairs","a":canon(a),"partners":all.len(),"ops":RELS}));
    });

    // ---- random pairs inside each comparable group and across the numeric types ---------------
    let nrand = ctx.n(150_000, 1_500_000);
    ctx.stage("random-pairs", nrand, true, |_idx, rng, rep| {
        let g = rng.below(7);
        let a = random_of_group(rng, g);
        let b = if rng.chance(1, 5) { a.clone() } else if rng.chance(1, 6) { let g2 = rng.below(2); random_of_group(rng, g2) } else { random_of_group(rng, g) };
        let o = six(&mut p, &a, &b);
        let binds = vec![("a".to_string(), b.clone()), ("b".to_string(), a.clone())];
        let rev = mon::run_in(&mut p.rel[0], &binds);
        check_pair(rep, "variable", &a, &b, &o, Some(&rev));
        if rng.chance(1, 4) {
            if let (Some(sa), Some(sb)) = (vals::spell(&a), vals::spell(&b)) {
                let o2 = six_lit(&sa, &sb);
                check_pair(rep, "literal", &a, &b, &o2, None);
            }
        }
        rep.distinct(&format!("{}|{}", canon(&a), canon(&b)), true);
        rep.sample(|| json!({"stage":"random-pairs","a":canon(&a),"b":canon(&b)}));
    });

    // ---- nested containers: reflexivity, symmetry, complement ---------------------------------
    let ncont = ctx.n(30_000, 300_000);
    ctx.stage("containers", ncont, true, |_idx, rng, rep| {
        let a = vals::random_value(rng, 2);
        let b = if rng.chance(1, 2) { a.clone() } else { vals::random_value(rng, 2) };
        let o = six(&mut p, &a, &b);
        let binds = vec![("a".to_string(), b.clone()), ("b".to_string(), a.clone())];
        let rev = mon::run_in(&mut p.rel[0], &binds);
        // only the == / != laws apply to containers
        rep.add("_evals", 2);
        let case = || json!({"a": canon(&a), "b": canon(&b), "eq": o[0].show(), "ne": o[1].show(), "rev": rev.show()});
        for x in &o {
            if x.is_panic() {
                rep.viol("container|panic", &x.show(), case());
                return;
            }
        }
        rep.eval();
        match (as_bool(&o[0]), as_bool(&o[1])) {
            (Some(e), Some(n)) if e != n => {}
            (None, None) if o[0].is_err() && o[1].is_err() => {}
            _ => rep.viol("container|complement", "== and != are not complementary", case()),
        }
        if as_bool(&o[0]) != as_bool(&rev) || o[0].is_err() != rev.is_err() {
            rep.viol("container|symmetry", "a == b differs from b == a", case());
        }
        if canon(&a) == canon(&b) && !has_nan(&a) && as_bool(&o[0]) != Some(true) {
            rep.viol("container|reflexive", "a value is not equal to its own copy", case());
        }
        rep.distinct(&format!("{}|{}", canon(&a), canon(&b)), true);
    });

    // ---- sort / min / max ---------------------------------------------------------------------
    let nsort = ctx.n(60_000, 400_000);
    let thorough = !ctx.quick();
    ctx.stage("sort-min-max", nsort, true, |idx, rng, rep| {
        let g = rng.below(8);
        let len = if thorough && idx % 50 == 0 { 200 + rng.below(1800) } else { rng.below(41) };
        let mut l: Vec<CelValue> = Vec::with_capacity(len);
        let smallpool: Vec<CelValue> = (0..4).map(|_| if g == 7 { small_mixed(rng) } else { random_of_group(rng, g) }).collect();
        for _ in 0..len {
            if rng.chance(1, 3) {
                l.push(rng.pick(&smallpool).clone()); // duplicates
            } else if g == 7 {
                l.push(small_mixed(rng));
            } else {
                l.push(random_of_group(rng, g));
            }
        }
        let binds = vec![("l".to_string(), CelValue::from_list(l.clone()))];
        // (the free form `sort(l)` is not implemented by the dispatcher; only the method form is the claim)
        let out = mon::run1(if rng.chance(1, 2) { "l.sort()" } else { "(l + []).sort()" }, &binds);
        check_sorted(rep, "sort (variable)", &l, &out, g);
        if l.len() <= 8 {
            if let Some(s) = vals::spell(&CelValue::from_list(l.clone())) {
                let out = mon::run1(&format!("{}.sort()", s), &[]);
                check_sorted(rep, "sort (literal)", &l, &out, g);
            }
        }
        // min / max: the first least / greatest argument
        if !l.is_empty() && l.len() <= 6 {
            let names: Vec<String> = (0..l.len()).map(|i| format!("v{}", i)).collect();
            let binds: Vec<(String, CelValue)> = names.iter().cloned().zip(l.iter().cloned()).collect();
            for (f, want_ord) in [("min", Ordering::Less), ("max", Ordering::Greater)] {
                let src = format!("{}({})", f, names.join(", "));
                let out = mon::run1(&src, &binds);
                rep.eval();
                let mut best = 0;
                for i in 1..l.len() {
                    if model_cmp(&l[i], &l[best]) == Some(want_ord) {
                        best = i;
                    }
                }
                let ok = matches!(&out, Out::Val(v) if canon(v) == canon(&l[best]));
                if !ok {
                    rep.viol(
                        &format!("{}|group={}", f, g),
                        &format!("{} should return the first extreme argument {} (position {}), got {}", f, canon(&l[best]), best, out.show()),
                        json!({"source": src, "args": l.iter().map(canon).collect::<Vec<_>>()}),
                    );
                }
            }
        }
        rep.distinct(&format!("{:?}", l.iter().map(canon).collect::<Vec<_>>()), l.len() >= 2);
        rep.sample(|| json!({"stage":"sort","input":l.iter().take(8).map(canon).collect::<Vec<_>>(),"len":l.len(),"outcome":mon::clip(&out.show(), 200)}));
    });
}

/// small ints, uints and halves: exactly representable, so the mixed order is a true total order
fn small_mixed(rng: &mut Rng) -> CelValue {
    match rng.below(3) {
        0 => CelValue::from_int(rng.range(-20, 20)),
        1 => CelValue::from_uint(rng.below(20) as u64),
        _ => CelValue::from_float(rng.range(-40, 40) as f64 / 2.0),
    }
}
