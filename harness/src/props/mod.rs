use crate::mon::Ctx;

pub mod c01;

pub fn run(ctx: &mut Ctx) -> bool {
    match ctx.prop.as_str() {
        "C01" => c01::run(ctx),
        _ => return false,
    }
    true
}
