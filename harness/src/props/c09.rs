//! C09 - constant folding is invisible: replacing a variable by a literal of its bound value (or
//! a literal by a variable) does not change the result; clock reads are never frozen.

use rscel::{CelContext, CelValue, Program};
use serde_json::json;

use crate::gen::{self, Gen, GenCfg, Parens, Ty, VarDecl, Ws, E};
use crate::hookmon;
use crate::mon::{self, canon, Ctx, Out, Rep};
use crate::rng::Rng;
use crate::vals;

fn substitute(e: &E, subst: &[(String, CelValue)]) -> E {
    e.map(&mut |n| match &n {
        E::Var(name) => match subst.iter().find(|(k, _)| k == name) {
            Some((_, v)) => E::Lit(v.clone()),
            None => n,
        },
        _ => n,
    })
}

/// literal -> fresh variable bound to that value (the reverse direction)
fn abstract_literals(e: &E, rng: &mut Rng, binds: &mut Vec<(String, CelValue)>) -> E {
    let mut counter = 0;
    e.map(&mut |n| match &n {
        E::Lit(v) if rng.chance(1, 2) => {
            counter += 1;
            let name = format!("lv{}", counter);
            binds.push((name.clone(), v.clone()));
            E::Var(name)
        }
        _ => n,
    })
}

const TEMPLATES: &[&str] = &[
    "[y].filter(v, true)",
    "[y].map(v, v)",
    "[y, x].all(v, v == v)",
    "[x].exists(v, v == y)",
    "size([y])",
    "{'a': x, 'a': y}.a",
    "{'a': x, 'a': y}['a']",
    "{'k': y}.map(k, k)",
    "x ? y : z",
    "!x ? y : z",
    "(x ? y : z) == y",
    "[x, y][x]",
    "min(x, y)",
    "max(x, y, z)",
    "x / y",
    "x % y",
    "-x",
    "x + y * z",
    "string(x) + string(y)",
    "int(x) + uint(y)",
    "[x, y, z].sort()",
    "x in [y, z]",
    "f'{x}-{y}'",
    "type(x) == type(y)",
    "has(m.a) ? m.a : x",
    "coalesce(m.zz, x)",
    "[[x, y], [z]].map(l, l.map(v, v + x))",
    "[x, y].reduce(acc, v, acc + v, z)",
    "match x { case (y): 'same', case > z: 'big', case _: 'other' }",
    "x == y || y == z && x != z",
    "[x][0] == {'a': x}.a",
    "zip([x], [y])",
    "abs(x) + pow(y, 2)",
    "x > y ? x - y : y - x",
    "double(x) / double(y)",
    "[x, y, z].filter(v, v > y).size()",
    "u || x",
    "x || u",
    "u && x",
    "[u].size()",
    "[u].map(v, 1)",
    "has(u)",
    "coalesce(u, x)",
    "true ? x : u",
];

fn outcome_eq(a: &Out, b: &Out) -> bool {
    a.canon_anyerr() == b.canon_anyerr() && !a.is_panic()
}

fn check_relation(rep: &mut Rep, kind: &str, base_src: &str, base_binds: &[(String, CelValue)], base: &Out, alt_src: &str, alt_binds: &[(String, CelValue)], what: &str) {
    let alt = mon::run1(alt_src, alt_binds);
    rep.eval();
    rep.count(&format!("relation/{}", kind));
    if !outcome_eq(base, &alt) {
        let class = match (base, &alt) {
            (_, Out::Panic(..)) | (Out::Panic(..), _) => "panic",
            (Out::Val(_), Out::Val(_)) => "different-values",
            (Out::Val(_), Out::Err(_)) => "literal-form-fails",
            _ => "variable-form-fails",
        };
        rep.viol(
            &format!("fold-visible|{}|{}", kind, class),
            &format!("{}: `{}` gives {} but `{}` gives {}", what, mon::clip(base_src, 300), base.show(), mon::clip(alt_src, 300), alt.show()),
            json!({"variable_form": base_src, "literal_form": alt_src, "bindings": mon::binds_json(base_binds), "alt_bindings": mon::binds_json(alt_binds)}),
        );
    }
}

fn scalar_ty(rng: &mut Rng) -> Ty {
    rng.pick(&[Ty::Int, Ty::Int, Ty::UInt, Ty::Dbl, Ty::Bool, Ty::Str, Ty::Bytes, Ty::Null, Ty::Ts, Ty::Dur,
               Ty::List(Box::new(Ty::Int)), Ty::Map(Box::new(Ty::Int)), Ty::List(Box::new(Ty::Str))]).clone()
}

pub fn run(ctx: &mut Ctx) {
    // ---- templates: hazards named in the statement, over value combinations --------------------
    let pool: Vec<CelValue> = vec![
        0.into(), 1.into(), 2.into(), (-1).into(), i64::MAX.into(), 1u64.into(), 0u64.into(), 1.5.into(), 0.0.into(), true.into(), false.into(),
        "a".into(), "".into(), CelValue::from_null(), CelValue::from_list(vec![1.into()]), CelValue::from_list(vec![]),
        vals::mk_map(&[("a", 1.into())]), CelValue::from_bytes(vec![1]), CelValue::from_timestamp(vals::ts(1_700_000_000, 0)),
        CelValue::from_duration(chrono::Duration::seconds(90)),
    ];
    let nt = TEMPLATES.len() as u64;
    let reps = ctx.n(60, 400);
    ctx.stage("templates", nt * reps, true, |idx, rng, rep| {
        let src = TEMPLATES[(idx % nt) as usize];
        let same_type = rng.chance(1, 2);
        let x = rng.pick(&pool).clone();
        let pick2 = |rng: &mut Rng, like: &CelValue| -> CelValue {
            if same_type {
                let cands: Vec<&CelValue> = pool.iter().filter(|v| mon::vtype(v) == mon::vtype(like)).collect();
                (*rng.pick(&cands)).clone()
            } else {
                rng.pick(&pool).clone()
            }
        };
        let y = pick2(rng, &x);
        let z = pick2(rng, &x);
        let binds: Vec<(String, CelValue)> = vec![
            ("x".into(), x), ("y".into(), y), ("z".into(), z), ("m".into(), vals::mk_map(&[("a", 7.into())])),
        ];
        // `u` stays unbound
        let e_src = src.to_string();
        let base = mon::run1(&e_src, &binds);
        rep.eval();
        // all subsets of {x, y, z, m}
        for mask in 1u32..16 {
            let mut s = e_src.clone();
            let mut used = false;
            for (bit, name) in ["x", "y", "z", "m"].iter().enumerate() {
                if mask & (1 << bit) != 0 {
                    let v = &binds.iter().find(|(k, _)| k == name).unwrap().1;
                    let lit = vals::spell(v).unwrap();
                    let (s2, n) = replace_ident(&s, name, &lit);
                    if n > 0 {
                        used = true;
                    }
                    s = s2;
                }
            }
            if used {
                check_relation(rep, "template", &e_src, &binds, &base, &s, &binds, "template");
            }
        }
        rep.distinct(&format!("{}|{}", src, mon::binds_json(&binds)), true);
        rep.sample(|| json!({"stage":"templates","source":src,"bindings":mon::binds_json(&binds),"outcome":mon::clip(&base.show(), 120)}));
    });

    // ---- generated expressions x all subsets of their variables --------------------------------
    let n = ctx.n(300_000, 3_000_000);
    ctx.stage("generated", n, true, |_idx, rng, rep| {
        let nv = 1 + rng.below(5);
        const NAMES: [&str; 8] = ["a", "b", "c", "d", "p", "q", "foo", "bar_1"];
        let mut vars: Vec<VarDecl> = Vec::new();
        for i in 0..nv {
            vars.push(VarDecl { name: NAMES[i].to_string(), ty: scalar_ty(rng) });
        }
        let mut cfg = GenCfg::basic(vars.clone());
        cfg.allow_fstr = false;
        cfg.ill_typed_pct = 5;
        cfg.tame = rng.chance(3, 4);
        cfg.unbound = vec!["unb".to_string()];
        let ty = gen::random_ty(rng, 1);
        let depth = 1 + rng.below(4) as u32;
        let tame = cfg.tame;
        let e = Gen::new(rng, cfg).expr(&ty, depth);
        let mut binds = gen::random_binds(rng, &vars, tame);
        // sometimes one variable is left unbound at run time too
        let dropped = if rng.chance(1, 8) && !binds.is_empty() { let k = rng.below(binds.len()); Some(binds.remove(k).0) } else { None };
        let base_src = gen::render(&e, Ws::Pretty, Parens::Minimal, None).text;
        let (base, tr) = hookmon::with_trace(false, || mon::run1(&base_src, &binds));
        rep.eval();
        rep.add("compile_time_calls_folded", tr.folds_ok);
        rep.add("compile_time_calls_not_folded", tr.folds_no);
        if base.is_panic() {
            rep.viol("panic", &base.show(), json!({"source": base_src}));
            return;
        }
        let mut fv = Vec::new();
        let mut idents = Vec::new();
        gen::free_vars(&e, &mut Vec::new(), &mut fv, &mut idents);
        let present: Vec<(String, CelValue)> = binds.iter().filter(|(k, _)| fv.contains(k)).cloned().collect();
        let k = present.len().min(5);
        let nsub = 1u32 << k;
        for mask in 1..nsub {
            let subst: Vec<(String, CelValue)> = present.iter().take(k).enumerate().filter(|(i, _)| mask & (1 << i) != 0).map(|(_, b)| b.clone()).collect();
            let alt = substitute(&e, &subst);
            let alt_src = gen::render(&alt, Ws::Pretty, Parens::Minimal, None).text;
            let (_, tr) = hookmon::with_trace(false, || {
                check_relation(rep, "var-to-literal", &base_src, &binds, &base, &alt_src, &binds, "variables replaced by literals of their bound values");
            });
            rep.add("compile_time_calls_folded", tr.folds_ok);
        }
        // reverse direction: literals abstracted into fresh variables
        let mut b2 = binds.clone();
        let alt = abstract_literals(&e, rng, &mut b2);
        if b2.len() > binds.len() {
            let alt_src = gen::render(&alt, Ws::Pretty, Parens::Minimal, None).text;
            check_relation(rep, "literal-to-var", &base_src, &binds, &base, &alt_src, &b2, "literals replaced by variables bound to the same values");
        }
        let _ = dropped;
        rep.distinct(&format!("{}|{}", base_src, mon::binds_json(&binds)), !present.is_empty() && e.size() >= 2);
        rep.sample(|| json!({"stage":"generated","source":mon::clip(&base_src, 200),"bindings":mon::binds_json(&binds),"subsets":nsub - 1,"outcome":mon::clip(&base.show(), 100)}));
    });

    // ---- the clock is read at every execution ------------------------------------------------------
    let clock_forms: &[(&str, &str)] = &[
        ("now()", "ts"),
        ("timestamp()", "ts"),
        ("now() + duration('0s')", "ts"),
        ("timestamp() - duration(0)", "ts"),
        ("[now()][0]", "ts"),
        ("[1].map(x, now())[0]", "ts"),
        ("[1].map(x, timestamp())[0]", "ts"),
        ("{'t': now()}.t", "ts"),
        ("true ? now() : timestamp()", "ts"),
        ("flag ? timestamp() : now()", "ts"),
        ("coalesce(null, now())", "ts"),
        ("int(now())", "secs"),
        ("int(timestamp())", "secs"),
        ("timestamp(int(now()))", "ts-secs"),
        ("now() > timestamp(0) ? now() : timestamp(0)", "ts"),
        ("[now(), timestamp()].sort()[0]", "ts"),
        ("max(now(), timestamp(0))", "ts"),
        ("match 1 { case 1: now(), case _: timestamp(0) }", "ts"),
        ("dyn(now())", "ts"),
        ("timestamp(now())", "ts"),
        ("timestamp(timestamp())", "ts"),
    ];
    let nc = clock_forms.len() as u64;
    ctx.stage("clock", nc, false, |idx, _rng, rep| {
        let (src, kind) = clock_forms[idx as usize];
        let prog = match mon::compile(src) {
            Ok(p) => p,
            Err(o) => {
                rep.viol("clock|compile", &format!("{} does not compile: {}", src, o.show()), json!({"source": src}));
                return;
            }
        };
        // also through a serde round trip of the compiled program
        let revived: Option<Program> = serde_json::to_string(&prog).ok().and_then(|s| serde_json::from_str(&s).ok());
        std::thread::sleep(std::time::Duration::from_millis(8));
        let binds = vec![("flag".to_string(), CelValue::from_bool(true))];
        let mut last: Option<i128> = None;
        for (round, p) in [Some(&prog), Some(&prog), revived.as_ref()].into_iter().enumerate() {
            let p = match p {
                Some(p) => p,
                None => continue,
            };
            let mut c = CelContext::new();
            c.add_program("main", p.clone());
            let before = chrono::Utc::now();
            let out = mon::run_in(&mut c, &binds);
            let after = chrono::Utc::now();
            rep.eval();
            rep.count("clock_executions");
            let nanos = |t: &chrono::DateTime<chrono::Utc>| t.timestamp() as i128 * 1_000_000_000 + t.timestamp_subsec_nanos() as i128;
            let (lo, hi) = (nanos(&before), nanos(&after));
            let got: Option<(i128, i128)> = match (&out, kind) {
                (Out::Val(CelValue::TimeStamp(t)), "ts") => Some((nanos(t), nanos(t))),
                (Out::Val(CelValue::TimeStamp(t)), "ts-secs") => Some((nanos(t), nanos(t) + 999_999_999)),
                (Out::Val(CelValue::Int(s)), "secs") => Some((*s as i128 * 1_000_000_000, *s as i128 * 1_000_000_000 + 999_999_999)),
                _ => None,
            };
            match got {
                None => rep.viol("clock|outcome", &format!("{} gave {}", src, out.show()), json!({"source": src})),
                Some((glo, ghi)) => {
                    // the reading must lie inside the wall-clock bracket of *this* execution
                    if ghi < lo || glo > hi {
                        rep.viol(
                            &format!("clock|frozen|{}", if round == 2 { "after-serde" } else { "direct" }),
                            &format!("{}: execution {} ran in [{}, {}] ns but the program reported {} ns ({} ms before the execution began): the clock was read at compile time", src, round, lo, hi, glo, (lo - ghi) / 1_000_000),
                            json!({"source": src, "round": round, "bytecode": prog.dumps_bc()}),
                        );
                    }
                    if let Some(prev) = last {
                        if round == 1 && glo == prev && kind == "ts" {
                            rep.viol("clock|identical", &format!("{}: two executions 8 ms apart returned the identical instant", src), json!({"source": src}));
                        }
                    }
                    last = Some(glo);
                }
            }
            std::thread::sleep(std::time::Duration::from_millis(8));
        }
        rep.distinct(src, true);
    });
}

/// replace whole-word occurrences of identifier `name` (not preceded by '.', not a loop-variable
/// declaration, not inside a string) by `lit`
fn replace_ident(src: &str, name: &str, lit: &str) -> (String, usize) {
    let chars: Vec<char> = src.chars().collect();
    let mut out = String::new();
    let mut i = 0;
    let mut n = 0;
    let mut in_str: Option<char> = None;
    let is_id = |c: char| c.is_ascii_alphanumeric() || c == '_';
    let nchars: Vec<char> = name.chars().collect();
    while i < chars.len() {
        let c = chars[i];
        if let Some(q) = in_str {
            out.push(c);
            // f-strings: substitute inside braces too (handled as plain text: keep it simple, skip)
            if c == q {
                in_str = None;
            }
            i += 1;
            continue;
        }
        if c == '\'' || c == '"' {
            // inside f-strings identifiers are live: substitute within {...}
            if i > 0 && chars[i - 1] == 'f' {
                // copy the f-string, substituting inside braces
                out.push(c);
                i += 1;
                let mut depth = 0;
                while i < chars.len() && !(chars[i] == c && depth == 0) {
                    if chars[i] == '{' {
                        depth += 1;
                    } else if chars[i] == '}' {
                        depth -= 1;
                    }
                    let embeddable = !lit.contains('{') && !lit.contains('"') && !lit.contains('\\') && !lit.contains("\'");
                    if embeddable && depth > 0 && chars[i..].starts_with(&nchars) && (i == 0 || !is_id(chars[i - 1])) && !chars.get(i + nchars.len()).map(|c| is_id(*c)).unwrap_or(false) {
                        out.push_str(&lit.replace('\'', "\""));
                        i += nchars.len();
                        n += 1;
                        continue;
                    }
                    out.push(chars[i]);
                    i += 1;
                }
                if i < chars.len() {
                    out.push(chars[i]);
                    i += 1;
                }
                continue;
            }
            in_str = Some(c);
            out.push(c);
            i += 1;
            continue;
        }
        if chars[i..].starts_with(&nchars)
            && (i == 0 || (!is_id(chars[i - 1]) && chars[i - 1] != '.'))
            && !chars.get(i + nchars.len()).map(|c| is_id(*c)).unwrap_or(false)
        {
            out.push_str(lit);
            i += nchars.len();
            n += 1;
            continue;
        }
        out.push(c);
        i += 1;
    }
    (out, n)
}
