//! C15 - string, regex and math built-ins compute their documented function on all inputs.
//! Oracle: naive re-implementations that share no code with the SUT's wrappers; the regex crate
//! called directly; i128 / libm for math; a signature table for shapes.

use regex::Regex;
use rscel::CelValue;
use serde_json::json;

use crate::mon::{self, canon, Ctx, Out, Rep};
use crate::rng::Rng;
use crate::vals;

// ---- naive string algorithms -------------------------------------------------------------------

fn find_from(h: &[u8], n: &[u8], from: usize) -> Option<usize> {
    if n.is_empty() {
        return Some(from);
    }
    if h.len() < n.len() {
        return None;
    }
    let mut i = from;
    while i + n.len() <= h.len() {
        if &h[i..i + n.len()] == n {
            return Some(i);
        }
        i += 1;
    }
    None
}

fn naive_contains(h: &str, n: &str) -> bool {
    find_from(h.as_bytes(), n.as_bytes(), 0).is_some()
}

fn naive_split(h: &str, d: &str) -> Vec<String> {
    let (hb, db) = (h.as_bytes(), d.as_bytes());
    let mut out = Vec::new();
    let mut start = 0;
    let mut i = 0;
    while let Some(p) = find_from(hb, db, i) {
        out.push(String::from_utf8_lossy(&hb[start..p]).into_owned());
        start = p + db.len();
        i = start;
    }
    out.push(String::from_utf8_lossy(&hb[start..]).into_owned());
    out
}

fn naive_rsplit(h: &str, d: &str) -> Vec<String> {
    // right scan: the last occurrence first, non-overlapping towards the left
    let (hb, db) = (h.as_bytes(), d.as_bytes());
    let mut out = Vec::new();
    let mut end = hb.len();
    loop {
        let mut found = None;
        if end >= db.len() {
            let mut p = end - db.len();
            loop {
                if &hb[p..p + db.len()] == db {
                    found = Some(p);
                    break;
                }
                if p == 0 {
                    break;
                }
                p -= 1;
            }
        }
        match found {
            Some(p) => {
                out.push(String::from_utf8_lossy(&hb[p + db.len()..end]).into_owned());
                end = p;
            }
            None => {
                out.push(String::from_utf8_lossy(&hb[..end]).into_owned());
                break;
            }
        }
    }
    out
}

fn naive_replace(h: &str, n: &str, t: &str) -> String {
    naive_split(h, n).join(t)
}

fn is_uws(c: char) -> bool {
    c.is_whitespace()
}

fn strs(v: &[String]) -> CelValue {
    CelValue::from_list(v.iter().map(|s| CelValue::from_string(s.clone())).collect())
}

fn expect(rep: &mut Rep, func: &str, form: &str, src: &str, binds: &[(String, CelValue)], want: Result<CelValue, ()>) {
    let out = mon::run1(src, binds);
    rep.eval();
    rep.count(&format!("func/{}", func));
    let ok = match (&want, &out) {
        (_, Out::Panic(..)) => false,
        (Ok(v), Out::Val(o)) => canon(v) == canon(o),
        (Err(()), Out::Err(_)) => true,
        _ => false,
    };
    if !ok {
        let class = match (&want, &out) {
            (_, Out::Panic(..)) => "panic",
            (Ok(_), Out::Err(_)) => "error-instead-of-value",
            (Err(()), _) => "value-instead-of-error",
            _ => "wrong-value",
        };
        rep.viol(
            &format!("{}|{}|{}", func, form, class),
            &format!("{} with {}: expected {}, got {}", src, mon::binds_json(binds), want.as_ref().map(|v| mon::clip(&canon(v), 200)).unwrap_or("an error".into()), out.show()),
            json!({"source": src, "bindings": mon::binds_json(binds)}),
        );
    }
}

/// both forms: bound variables, and spelled literals (the compiler evaluates the call)
fn both(rep: &mut Rep, func: &str, tpl: &str, vals_: &[(&str, CelValue)], want: Result<CelValue, ()>) {
    let binds: Vec<(String, CelValue)> = vals_.iter().map(|(k, v)| (k.to_string(), v.clone())).collect();
    expect(rep, func, "variable", tpl, &binds, want.clone());
    let mut src = tpl.to_string();
    let mut ok = true;
    for (k, v) in vals_ {
        match vals::spell(v) {
            Some(s) => src = src.replace(&format!("${}", k), &s),
            None => ok = false,
        }
    }
    let _ = ok;
    // literal form: placeholders are written as single letters s, n, t in the template
    let mut lit = String::new();
    let mut chars = tpl.chars().peekable();
    let mut prev_ident = false;
    while let Some(c) = chars.next() {
        let is_id = c.is_ascii_alphanumeric() || c == '_';
        if is_id && !prev_ident {
            // read the identifier
            let mut id = String::from(c);
            while let Some(n) = chars.peek() {
                if n.is_ascii_alphanumeric() || *n == '_' {
                    id.push(*n);
                    chars.next();
                } else {
                    break;
                }
            }
            match vals_.iter().find(|(k, _)| *k == id) {
                Some((_, v)) => match vals::spell(v) {
                    Some(s) => lit.push_str(&s),
                    None => return,
                },
                None => lit.push_str(&id),
            }
            prev_ident = false;
            continue;
        }
        prev_ident = is_id;
        lit.push(c);
    }
    expect(rep, func, "literal", &lit, &[], want);
}

// includes every letter whose case mapping crosses the ASCII boundary or changes length: Kelvin sign (-> k), Angstrom
// sign (-> å), Ohm sign (-> ω), İ (-> i + U+0307), dotless ı (-> I), long s (-> S), ß (-> SS), ﬁ (-> FI), ǅ, ŉ, final sigma
const ALPHA: &[&str] = &[
    "a", "b", "A", "B", "ab", "0", " ", "\t", "é", "É", "İ", "ß", "ς", "Σ", "😀", "e\u{301}", "\u{a0}", "\u{2003}", ".", "*", "aa",
    "i", "I", "k", "K", "s", "S", "f", "\u{212A}", "\u{212B}", "å", "\u{2126}", "ω", "\u{131}", "\u{17F}", "\u{307}", "ﬁ", "ǅ", "ŉ", "σ", "ss", "SS",
];

fn rstr(rng: &mut Rng, max: usize) -> String {
    let n = rng.below(max + 1);
    (0..n).map(|_| *rng.pick(ALPHA)).collect()
}

fn needle(rng: &mut Rng, h: &str) -> String {
    match rng.below(11) {
        0 => String::new(),
        1 => rng.pick(ALPHA).to_string(),
        2 | 3 => {
            // a substring of the haystack (on char boundaries)
            let cs: Vec<char> = h.chars().collect();
            if cs.is_empty() {
                return String::new();
            }
            let a = rng.below(cs.len());
            let b = a + 1 + rng.below((cs.len() - a).min(3));
            cs[a..b.min(cs.len())].iter().collect()
        }
        4 => "aa".to_string(),
        5 => format!("{}{}", h, "x"), // longer than the haystack
        6 => h.to_uppercase(),
        7 | 8 => {
            // a piece of the other-case form of the haystack: lines up with the haystack only through case mapping
            let other = if rng.chance(1, 2) { h.to_lowercase() } else { h.to_uppercase() };
            let cs: Vec<char> = other.chars().collect();
            if cs.is_empty() {
                return String::new();
            }
            let a = rng.below(cs.len());
            let b = a + 1 + rng.below((cs.len() - a).min(3));
            cs[a..b.min(cs.len())].iter().collect()
        }
        _ => rstr(rng, 2),
    }
}

// ---- signature table for the shape check ---------------------------------------------------------

#[derive(Clone, Copy, PartialEq, Debug)]
enum T {
    Int,
    UInt,
    Dbl,
    Bool,
    Str,
    Bytes,
    List,
    Map,
    Null,
    Ts,
    Dur,
}

const TYPES: [T; 11] = [T::Int, T::UInt, T::Dbl, T::Bool, T::Str, T::Bytes, T::List, T::Map, T::Null, T::Ts, T::Dur];

fn repr(t: T) -> CelValue {
    match t {
        T::Int => 2.into(),
        T::UInt => 2u64.into(),
        T::Dbl => 1.5.into(),
        T::Bool => true.into(),
        T::Str => "ab".into(),
        T::Bytes => CelValue::from_bytes(vec![0x61]),
        T::List => CelValue::from_list(vec![1.into()]),
        T::Map => vals::mk_map(&[("a", 1.into())]),
        T::Null => CelValue::from_null(),
        T::Ts => CelValue::from_timestamp(vals::ts(1_700_000_000, 0)),
        T::Dur => CelValue::from_duration(chrono::Duration::seconds(90)),
    }
}

/// documented signatures: (receiver or None, argument types)
fn signatures(f: &str) -> Option<Vec<(Option<T>, Vec<T>)>> {
    use T::*;
    let s2 = || vec![(Some(Str), vec![Str])];
    let num1 = || vec![(None, vec![Int]), (None, vec![UInt]), (None, vec![Dbl])];
    Some(match f {
        "contains" | "containsI" | "startsWith" | "startsWithI" | "endsWith" | "endsWithI" | "matches" | "matchCaptures" | "remove" | "split" | "rsplit" | "trimStartMatches" | "trimEndMatches" => s2(),
        "matchReplace" | "matchReplaceOnce" | "replace" => vec![(Some(Str), vec![Str, Str])],
        "splitAt" => vec![(Some(Str), vec![Int])],
        "trim" | "trimStart" | "trimEnd" | "toLower" | "toUpper" | "splitWhiteSpace" => vec![(Some(Str), vec![])],
        "size" => vec![(Some(Str), vec![]), (Some(Bytes), vec![]), (Some(List), vec![]), (None, vec![Str]), (None, vec![Bytes]), (None, vec![List])],
        "sort" => vec![(Some(List), vec![])],
        "abs" | "sqrt" | "log" | "lg" | "ceil" | "floor" | "round" => num1(),
        "pow" => {
            let mut v = Vec::new();
            for a in [Int, UInt, Dbl] {
                for b in [Int, UInt, Dbl] {
                    v.push((None, vec![a, b]));
                }
            }
            v
        }
        "getDate" | "getDayOfMonth" | "getDayOfWeek" | "getDayOfYear" | "getFullYear" | "getMonth" => vec![(Some(Ts), vec![]), (Some(Ts), vec![Str])],
        "getHours" | "getMinutes" | "getSeconds" | "getMilliseconds" => vec![(Some(Ts), vec![]), (Some(Ts), vec![Str]), (Some(Dur), vec![])],
        "uomConvert" => vec![(None, vec![Int, Str, Str]), (None, vec![UInt, Str, Str]), (None, vec![Dbl, Str, Str])],
        "now" => vec![(None, vec![])],
        _ => return None, // min, max, zip: variadic, not classified here
    })
}

fn shape_call(rep: &mut Rep, f: &str, recv: Option<T>, args: &[T]) {
    let sigs = match signatures(f) {
        Some(s) => s,
        None => return,
    };
    let accepted = sigs.iter().any(|(r, a)| *r == recv && a.as_slice() == args);
    // the receiver written as first argument / first argument written as receiver: the documentation
    // says both spellings exist for "all functions"; the code implements one: not classified
    let transposed = sigs.iter().any(|(r, a)| match (r, recv) {
        (Some(rt), None) => !args.is_empty() && args[0] == *rt && &args[1..] == a.as_slice(),
        (None, Some(rt)) => !a.is_empty() && a[0] == rt && &a[1..] == args,
        _ => false,
    });
    if transposed && !accepted {
        return;
    }
    let names = ["a0", "a1", "a2", "a3"];
    let mut binds: Vec<(String, CelValue)> = Vec::new();
    let mut src = String::new();
    if let Some(r) = recv {
        binds.push(("r".into(), repr(r)));
        src.push_str("r.");
    }
    src.push_str(f);
    src.push('(');
    for (i, a) in args.iter().enumerate() {
        if i > 0 {
            src.push_str(", ");
        }
        src.push_str(names[i]);
        let mut v = repr(*a);
        // arguments that make the accepted call meaningful (zone name, unit names, split position)
        if accepted {
            if f.starts_with("get") && *a == T::Str {
                v = "UTC".into();
            }
            if f == "uomConvert" && *a == T::Str {
                v = "kg".into();
            }
            if f == "splitAt" {
                v = 1.into();
            }
        }
        binds.push((names[i].to_string(), v));
    }
    src.push(')');
    let out = mon::run1(&src, &binds);
    rep.eval();
    rep.count(if accepted { "shapes_accepted" } else { "shapes_rejected" });
    let ok = match (&out, accepted) {
        (Out::Panic(..), _) => false,
        (Out::Val(_), true) => true,
        (Out::Err(_), false) => true,
        _ => false,
    };
    if !ok {
        // a receiver that is literally null reaches the dispatcher exactly like "no receiver"
        let null_as_absent = recv == Some(T::Null) && !accepted && out.is_val() && sigs.iter().any(|(r, a)| r.is_none() && a.as_slice() == args);
        if null_as_absent {
            rep.viol(
                "shape|null-receiver-treated-as-absent",
                &format!("{} with a null receiver is answered like the free call: {}", src, out.show()),
                json!({"source": src, "bindings": mon::binds_json(&binds)}),
            );
            return;
        }
        rep.viol(
            &format!("shape|{}|{}", f, if accepted { "documented-shape-rejected" } else { "undocumented-shape-accepted" }),
            &format!("{} with receiver {:?} and arguments {:?}: {} (documented signatures: {:?})", src, recv, args, out.show(), sigs),
            json!({"source": src, "bindings": mon::binds_json(&binds)}),
        );
    }
}

fn ulp_close(a: f64, b: f64) -> bool {
    if a.is_nan() && b.is_nan() {
        return true;
    }
    if a == b {
        return true;
    }
    if a.is_infinite() || b.is_infinite() || a.is_nan() || b.is_nan() {
        return false;
    }
    let (x, y) = (a.to_bits() as i64, b.to_bits() as i64);
    (a.is_sign_negative() == b.is_sign_negative()) && (x - y).abs() <= 2
}

fn num_eq(out: &Out, want: i128) -> bool {
    match out {
        Out::Val(CelValue::Int(i)) => *i as i128 == want,
        Out::Val(CelValue::UInt(u)) => *u as i128 == want,
        Out::Val(CelValue::Float(f)) => *f == want as f64,
        _ => false,
    }
}

pub fn run(ctx: &mut Ctx) {
    // ---- strings -------------------------------------------------------------------------------------
    let n = ctx.n(40_000, 500_000);
    ctx.stage("strings", n, true, |_idx, rng, rep| {
        let s = rstr(rng, 10);
        let nd = needle(rng, &s);
        let t = rstr(rng, 2);
        let sv: CelValue = s.as_str().into();
        let nv: CelValue = nd.as_str().into();
        let tv: CelValue = t.as_str().into();
        let (sl, nl) = (s.to_lowercase(), nd.to_lowercase());
        both(rep, "contains", "s.contains(n)", &[("s", sv.clone()), ("n", nv.clone())], Ok(naive_contains(&s, &nd).into()));
        both(rep, "containsI", "s.containsI(n)", &[("s", sv.clone()), ("n", nv.clone())], Ok(naive_contains(&sl, &nl).into()));
        both(rep, "startsWith", "s.startsWith(n)", &[("s", sv.clone()), ("n", nv.clone())], Ok((s.as_bytes().len() >= nd.len() && &s.as_bytes()[..nd.len()] == nd.as_bytes()).into()));
        both(rep, "startsWithI", "s.startsWithI(n)", &[("s", sv.clone()), ("n", nv.clone())], Ok((sl.as_bytes().len() >= nl.len() && &sl.as_bytes()[..nl.len()] == nl.as_bytes()).into()));
        both(rep, "endsWith", "s.endsWith(n)", &[("s", sv.clone()), ("n", nv.clone())], Ok((s.len() >= nd.len() && &s.as_bytes()[s.len() - nd.len()..] == nd.as_bytes()).into()));
        both(rep, "endsWithI", "s.endsWithI(n)", &[("s", sv.clone()), ("n", nv.clone())], Ok((sl.len() >= nl.len() && &sl.as_bytes()[sl.len() - nl.len()..] == nl.as_bytes()).into()));
        if !nd.is_empty() {
            both(rep, "split", "s.split(n)", &[("s", sv.clone()), ("n", nv.clone())], Ok(strs(&naive_split(&s, &nd))));
            both(rep, "rsplit", "s.rsplit(n)", &[("s", sv.clone()), ("n", nv.clone())], Ok(strs(&naive_rsplit(&s, &nd))));
            both(rep, "replace", "s.replace(n, t)", &[("s", sv.clone()), ("n", nv.clone()), ("t", tv.clone())], Ok(naive_replace(&s, &nd, &t).as_str().into()));
            both(rep, "remove", "s.remove(n)", &[("s", sv.clone()), ("n", nv.clone())], Ok(naive_replace(&s, &nd, "").as_str().into()));
            // trim*Matches: remove the repeated prefix / suffix and nothing else
            let mut a = s.as_str();
            while a.as_bytes().len() >= nd.len() && &a.as_bytes()[..nd.len()] == nd.as_bytes() {
                a = &a[nd.len()..];
            }
            both(rep, "trimStartMatches", "s.trimStartMatches(n)", &[("s", sv.clone()), ("n", nv.clone())], Ok(a.into()));
            let mut b = s.as_str();
            while b.len() >= nd.len() && &b.as_bytes()[b.len() - nd.len()..] == nd.as_bytes() {
                b = &b[..b.len() - nd.len()];
            }
            both(rep, "trimEndMatches", "s.trimEndMatches(n)", &[("s", sv.clone()), ("n", nv.clone())], Ok(b.into()));
        } else {
            // empty delimiter: only the rejoin law
            let binds = vec![("s".to_string(), sv.clone())];
            let out = mon::run1("s.split('')", &binds);
            rep.eval();
            if let Out::Val(CelValue::List(l)) = &out {
                let joined: String = l.iter().map(|p| if let CelValue::String(x) = p { x.clone() } else { "\u{0}".into() }).collect();
                if joined != s {
                    rep.viol("split|empty-delimiter|rejoin", &format!("pieces {} do not rejoin to {:?}", out.show(), s), json!({"s": s}));
                }
            } else if out.is_panic() {
                rep.viol("split|empty-delimiter|panic", &out.show(), json!({"s": s}));
            }
        }
        // case mapping
        both(rep, "toLower", "s.toLower()", &[("s", sv.clone())], Ok(s.to_lowercase().as_str().into()));
        both(rep, "toUpper", "s.toUpper()", &[("s", sv.clone())], Ok(s.to_uppercase().as_str().into()));
        // trimming: laws that hold for ASCII and for Unicode white space
        let binds = vec![("s".to_string(), sv.clone())];
        for (f, start, end) in [("trim", true, true), ("trimStart", true, false), ("trimEnd", false, true)] {
            let out = mon::run1(&format!("s.{}()", f), &binds);
            rep.eval();
            rep.count(&format!("func/{}", f));
            let strip = |pred: &dyn Fn(char) -> bool| -> String {
                let cs: Vec<char> = s.chars().collect();
                let mut a = 0;
                let mut b = cs.len();
                if start {
                    while a < b && pred(cs[a]) {
                        a += 1;
                    }
                }
                if end {
                    while b > a && pred(cs[b - 1]) {
                        b -= 1;
                    }
                }
                cs[a..b].iter().collect()
            };
            let ascii = |c: char| c == ' ' || c == '\t' || c == '\n' || c == '\r' || c == '\x0b' || c == '\x0c';
            // the result is the string with either all Unicode white space or only ASCII white space removed there
            let ok = match &out {
                Out::Val(CelValue::String(r)) => *r == strip(&|c| is_uws(c)) || *r == strip(&ascii),
                _ => false,
            };
            if !ok {
                rep.viol(&format!("{}|law", f), &format!("s.{}() with s={:?} gave {}", f, s, out.show()), json!({"s": s}));
            }
        }
        let o1 = mon::run1("s.trim()", &binds);
        let o2 = mon::run1("s.trimStart().trimEnd()", &binds);
        rep.eval();
        if o1.canon() != o2.canon() {
            rep.viol("trim|composition", &format!("trim {} vs trimStart.trimEnd {} for {:?}", o1.show(), o2.show(), s), json!({"s": s}));
        }
        // splitWhiteSpace: non-empty white-space-free pieces that rejoin to the normalised string
        let out = mon::run1("s.splitWhiteSpace()", &binds);
        rep.eval();
        rep.count("func/splitWhiteSpace");
        let want: Vec<String> = {
            let mut v = Vec::new();
            let mut cur = String::new();
            for c in s.chars() {
                if is_uws(c) {
                    if !cur.is_empty() {
                        v.push(std::mem::take(&mut cur));
                    }
                } else {
                    cur.push(c);
                }
            }
            if !cur.is_empty() {
                v.push(cur);
            }
            v
        };
        if out.canon() != canon(&strs(&want)) {
            rep.viol("splitWhiteSpace|wrong", &format!("{:?}.splitWhiteSpace() gave {}, expected {:?}", s, out.show(), want), json!({"s": s}));
        }
        // splitAt at every byte offset around the string
        for i in -1..=(s.len() as i64 + 1) {
            let want = if i >= 0 && (i as usize) <= s.len() && s.is_char_boundary(i as usize) {
                Ok(strs(&[s[..i as usize].to_string(), s[i as usize..].to_string()]))
            } else {
                Err(())
            };
            both(rep, "splitAt", "s.splitAt(i)", &[("s", sv.clone()), ("i", i.into())], want);
        }
        both(rep, "size", "s.size()", &[("s", sv.clone())], Ok((s.len() as u64).into()));
        rep.distinct(&format!("{}|{}", s, nd), s.chars().count() >= 2);
        rep.sample(|| json!({"stage":"strings","s":s,"needle":nd}));
    });

    // ---- regex: the engine called directly is the reference -------------------------------------------
    let nr = ctx.n(40_000, 400_000);
    ctx.stage("regex", nr, true, |_idx, rng, rep| {
        const PIECES: &[&str] = &["a", "b", "[ab]", ".", "a*", "b+", "(a|b)", "(a)(b)?", "^", "$", "\\d", "\\w+", "é", "(?i)a", "(?P<x>a)", "x{2}", "[^a]", "\\b", "(", ")", "[", "*", "\\", "(?<first>a)", "a{2,1}", "\\p{L}"];
        let npc = 1 + rng.below(3);
        let pat: String = (0..npc).map(|_| *rng.pick(PIECES)).collect();
        let s = rstr(rng, 8);
        let t = rng.pick(&["x", "", "$0$0", "${1}", "$x", "$", "\\"]).to_string();
        let (sv, pv, tv): (CelValue, CelValue, CelValue) = (s.as_str().into(), pat.as_str().into(), t.as_str().into());
        let re = Regex::new(&pat);
        rep.count(if re.is_ok() { "regex_valid" } else { "regex_invalid" });
        let (w_match, w_caps, w_rep, w_rep1): (Result<CelValue, ()>, Result<CelValue, ()>, Result<CelValue, ()>, Result<CelValue, ()>) = match &re {
            Ok(re) => (
                Ok(re.is_match(&s).into()),
                Ok(match re.captures(&s) {
                    Some(c) => CelValue::from_list(c.iter().map(|m| m.map(|m| CelValue::from(m.as_str())).unwrap_or(CelValue::from_null())).collect()),
                    None => CelValue::from_null(),
                }),
                Ok(re.replace_all(&s, t.as_str()).into_owned().as_str().into()),
                Ok(re.replace(&s, t.as_str()).into_owned().as_str().into()),
            ),
            Err(_) => (Err(()), Err(()), Err(()), Err(())),
        };
        both(rep, "matches", "s.matches(p)", &[("s", sv.clone()), ("p", pv.clone())], w_match);
        both(rep, "matchCaptures", "s.matchCaptures(p)", &[("s", sv.clone()), ("p", pv.clone())], w_caps);
        both(rep, "matchReplace", "s.matchReplace(p, t)", &[("s", sv.clone()), ("p", pv.clone()), ("t", tv.clone())], w_rep);
        both(rep, "matchReplaceOnce", "s.matchReplaceOnce(p, t)", &[("s", sv.clone()), ("p", pv.clone()), ("t", tv.clone())], w_rep1);
        rep.distinct(&format!("{}|{}", pat, s), true);
        rep.sample(|| json!({"stage":"regex","pattern":pat,"s":s}));
    });

    // ---- math ---------------------------------------------------------------------------------------------
    let ints = vals::int_pool();
    let uints = vals::uint_pool();
    let dbls = vals::double_pool();
    let nm = (ints.len() + uints.len() + dbls.len()) as u64;
    ctx.stage("math-grid", nm, false, |idx, _rng, rep| {
        let k = idx as usize;
        let x: CelValue = if k < ints.len() { ints[k].into() } else if k < ints.len() + uints.len() { uints[k - ints.len()].into() } else { dbls[k - ints.len() - uints.len()].into() };
        math_unary(rep, &x);
        for y in ints.iter().map(|i| CelValue::from_int(*i)).chain(uints.iter().map(|u| CelValue::from_uint(*u))).chain([0.5, 2.0, -1.0, 3.0, 64.0, f64::NAN, f64::INFINITY, -0.0, 1e300].iter().map(|f| CelValue::from_float(*f))) {
            math_pow(rep, &x, &y);
        }
        rep.distinct(&canon(&x), true);
    });
    let nmr = ctx.n(40_000, 400_000);
    ctx.stage("math-random", nmr, true, |_idx, rng, rep| {
        let x: CelValue = match rng.below(4) {
            0 => (rng.next() as i64).into(),
            1 => rng.next().into(),
            2 => rng.f64_bits().into(),
            _ => (rng.range(-1000, 1000) as f64 / 4.0).into(),
        };
        math_unary(rep, &x);
        let y: CelValue = match rng.below(4) {
            0 => rng.range(-3, 70).into(),
            1 => (rng.below(70) as u64).into(),
            2 => (rng.range(-8, 8) as f64 / 2.0).into(),
            _ => (rng.next() as i64).into(),
        };
        let xs: CelValue = match rng.below(3) {
            0 => rng.range(-12, 12).into(),
            1 => (rng.below(12) as u64).into(),
            _ => x.clone(),
        };
        math_pow(rep, &xs, &y);
        rep.distinct(&format!("{}|{}", canon(&x), canon(&y)), true);
    });

    // ---- shapes: every function x arities 0..3 x type tuples (exhaustive), arity 4 sampled -------------------
    let fnames: Vec<&str> = crate::corpus::NAMES_FUNCS.iter().copied().collect();
    let nf = fnames.len() as u64;
    ctx.stage("shapes", nf * 12, false, |idx, rng, rep| {
        let f = fnames[(idx / 12) as usize];
        let r = (idx % 12) as usize;
        let recv = if r == 0 { None } else { Some(TYPES[r - 1]) };
        shape_call(rep, f, recv, &[]);
        for a in TYPES {
            shape_call(rep, f, recv, &[a]);
            for b in TYPES {
                shape_call(rep, f, recv, &[a, b]);
                for c in TYPES {
                    shape_call(rep, f, recv, &[a, b, c]);
                }
            }
        }
        for _ in 0..200 {
            let t4: Vec<T> = (0..4).map(|_| *rng.pick(&TYPES)).collect();
            shape_call(rep, f, recv, &t4);
        }
        rep.distinct(&format!("{}|{:?}", f, recv), true);
    });
}

fn math_unary(rep: &mut Rep, x: &CelValue) {
    let xi: Option<i128> = match x {
        CelValue::Int(i) => Some(*i as i128),
        CelValue::UInt(u) => Some(*u as i128),
        _ => None,
    };
    let fits = |v: i128, x: &CelValue| match x {
        CelValue::Int(_) => v >= i64::MIN as i128 && v <= i64::MAX as i128,
        _ => v >= 0 && v <= u64::MAX as i128,
    };
    let mk = |v: i128, x: &CelValue| -> CelValue {
        match x {
            CelValue::Int(_) => (v as i64).into(),
            _ => (v as u64).into(),
        }
    };
    match (x, xi) {
        (_, Some(v)) => {
            let a = v.abs();
            both(rep, "abs", "abs(x)", &[("x", x.clone())], if fits(a, x) { Ok(mk(a, x)) } else { Err(()) });
            // floor log10 / log2 on positive integers, error otherwise
            let lg = |base: i128| -> Result<CelValue, ()> {
                if v <= 0 {
                    return Err(());
                }
                let mut n = 0i128;
                let mut p = 1i128;
                while p * base <= v {
                    p *= base;
                    n += 1;
                }
                Ok(mk(n, x))
            };
            both(rep, "log", "log(x)", &[("x", x.clone())], lg(10));
            both(rep, "lg", "lg(x)", &[("x", x.clone())], lg(2));
            for f in ["ceil", "floor", "round"] {
                both(rep, f, &format!("{}(x)", f), &[("x", x.clone())], Ok(x.clone()));
            }
            // sqrt of an integer: the double square root (negative: NaN or an error)
            let out = mon::run1("sqrt(x)", &[("x".to_string(), x.clone())]);
            rep.eval();
            let ok = match &out {
                Out::Val(CelValue::Float(f)) => ulp_close(*f, (v as f64).sqrt()),
                Out::Err(_) => v < 0,
                _ => false,
            };
            if !ok {
                rep.viol("sqrt|integer", &format!("sqrt({}) gave {}", v, out.show()), json!({"x": canon(x)}));
            }
        }
        (CelValue::Float(f), _) => {
            let f = *f;
            both(rep, "abs", "abs(x)", &[("x", x.clone())], Ok(f.abs().into()));
            for (name, want) in [("sqrt", f.sqrt()), ("log", f.log10()), ("lg", f.log2())] {
                let out = mon::run1(&format!("{}(x)", name), &[("x".to_string(), x.clone())]);
                rep.eval();
                rep.count(&format!("func/{}", name));
                let ok = matches!(&out, Out::Val(CelValue::Float(g)) if ulp_close(*g, want));
                if !ok {
                    rep.viol(&format!("{}|double", name), &format!("{}({:?}) gave {}, libm gives {:?}", name, f, out.show(), want), json!({"x": canon(x)}));
                }
            }
            for (name, want) in [("ceil", f.ceil()), ("floor", f.floor()), ("round", f.round())] {
                let out = mon::run1(&format!("{}(x)", name), &[("x".to_string(), x.clone())]);
                rep.eval();
                rep.count(&format!("func/{}", name));
                let in_range = want >= -9223372036854775808.0 && want < 9223372036854775808.0;
                let ok = if in_range {
                    // the mathematical integer, as int or as double
                    num_eq(&out, want as i128)
                } else {
                    // out of range / non-finite: saturated integer, the IEEE double, or an error
                    match &out {
                        Out::Panic(..) => false,
                        Out::Err(_) => true,
                        Out::Val(CelValue::Float(g)) => ulp_close(*g, want),
                        Out::Val(CelValue::Int(i)) => *i == i64::MAX || *i == i64::MIN || (want.is_nan() && *i == 0),
                        _ => false,
                    }
                };
                if !ok {
                    rep.viol(&format!("{}|double", name), &format!("{}({:?}) gave {}, expected {:?}", name, f, out.show(), want), json!({"x": canon(x)}));
                }
            }
        }
        _ => {}
    }
}

fn math_pow(rep: &mut Rep, x: &CelValue, y: &CelValue) {
    let out = mon::run1("pow(x, y)", &[("x".to_string(), x.clone()), ("y".to_string(), y.clone())]);
    rep.eval();
    rep.count("func/pow");
    let case = || json!({"x": canon(x), "y": canon(y), "outcome": out.show()});
    if out.is_panic() {
        rep.viol("pow|panic", &out.show(), case());
        return;
    }
    let base_i: Option<i128> = match x {
        CelValue::Int(i) => Some(*i as i128),
        CelValue::UInt(u) => Some(*u as i128),
        _ => None,
    };
    match (base_i, x, y) {
        (Some(b), _, _) => {
            // integer base: exact when representable, error outside the domain
            let e: Option<i128> = match y {
                CelValue::Int(i) => Some(*i as i128),
                CelValue::UInt(u) => Some(*u as i128),
                CelValue::Float(f) => {
                    if f.is_finite() && f.fract() == 0.0 && f.abs() < 1e18 {
                        Some(*f as i128)
                    } else {
                        None // fractional / non-finite exponent on an integer base: not classified
                    }
                }
                _ => None,
            };
            let e = match e {
                Some(e) => e,
                None => return,
            };
            let want: Option<i128> = if e < 0 {
                None
            } else {
                let mut r: Option<i128> = Some(1);
                let mut k = 0i128;
                while k < e {
                    r = r.and_then(|v| v.checked_mul(b));
                    match r {
                        Some(v) if v.abs() > (1i128 << 70) => {
                            r = None;
                            break;
                        }
                        None => break,
                        _ => {}
                    }
                    if b == 0 || b == 1 {
                        break;
                    }
                    if b == -1 {
                        r = Some(if e % 2 == 0 { 1 } else { -1 });
                        break;
                    }
                    k += 1;
                }
                r
            };
            let fits = |v: i128| match x {
                CelValue::Int(_) => v >= i64::MIN as i128 && v <= i64::MAX as i128,
                _ => v >= 0 && v <= u64::MAX as i128,
            };
            let ok = match want {
                Some(v) if fits(v) => num_eq(&out, v) && !matches!(out, Out::Val(CelValue::Float(_))),
                _ => out.is_err(),
            };
            if !ok {
                rep.viol(
                    &format!("pow|integer|{}", if out.is_err() { "error-instead-of-value" } else if want.map(fits).unwrap_or(false) { "wrong-value" } else { "value-instead-of-error" }),
                    &format!("pow({}, {}) gave {}, exact result {:?}", canon(x), canon(y), out.show(), want),
                    case(),
                );
            }
        }
        (None, CelValue::Float(b), _) => {
            let want = match y {
                CelValue::Int(i) => b.powf(*i as f64),
                CelValue::UInt(u) => b.powf(*u as f64),
                CelValue::Float(f) => b.powf(*f),
                _ => return,
            };
            let ok = match &out {
                Out::Val(CelValue::Float(g)) => ulp_close(*g, want) || {
                    // powi vs powf differ by a few ulp for large exponents: relative 1e-12
                    g.is_finite() && want.is_finite() && ((g - want) / want).abs() < 1e-12
                } || {
                    // results in the subnormal range may underflow to zero (repeated multiplication
                    // overflows / underflows on the way); gradual underflow is not demanded
                    want.abs() < f64::MIN_POSITIVE && *g == 0.0
                } || {
                    // x^0 is 1 for every x, NaN included; libm answers NaN only for a signalling NaN base: both are accepted
                    b.is_nan() && *g == 1.0 && matches!(y, CelValue::Int(0) | CelValue::UInt(0)) || matches!(y, CelValue::Float(e) if b.is_nan() && *e == 0.0 && *g == 1.0)
                },
                _ => false,
            };
            if !ok {
                rep.viol("pow|double", &format!("pow({:?}, {}) gave {}, libm gives {:?}", b, canon(y), out.show(), want), case());
            }
        }
        _ => {}
    }
}
