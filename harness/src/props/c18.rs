//! C18 - syntax-tree spans are exact and nested; syntax errors point inside the source.
//! Ground truth: the renderer's recorded (line, col) span of every sub-expression.

use std::collections::BTreeSet;

use rscel::{CelError, StringTokenizer, Tokenizer};
use serde_json::{json, Value};

use crate::astnorm;
use crate::gen::{self, Gen, GenCfg, Parens, Ws, E};
use crate::mon::{self, Ctx, Out, Rep};
use crate::rng::Rng;

type Pos = (usize, usize);
type Span = (Pos, Pos);

fn parse_span(v: &Value) -> Option<Span> {
    let loc = v.get("loc")?;
    let p = |x: &Value| -> Option<Pos> { Some((x.get(0)?.as_u64()? as usize, x.get(1)?.as_u64()? as usize)) };
    Some((p(loc.get("start")?)?, p(loc.get("end")?)?))
}

fn is_astnode(v: &Value) -> bool {
    v.as_object().map(|o| o.len() == 2 && o.contains_key("loc") && o.contains_key("node")).unwrap_or(false)
}

struct SrcInfo {
    lines: Vec<Vec<char>>,
}

impl SrcInfo {
    fn new(src: &str) -> SrcInfo {
        SrcInfo { lines: src.split('\n').map(|l| l.chars().collect()).collect() }
    }
    fn valid(&self, p: Pos) -> bool {
        p.0 < self.lines.len() && p.1 <= self.lines[p.0].len()
    }
    fn slice(&self, s: Span) -> Option<String> {
        if !self.valid(s.0) || !self.valid(s.1) || s.0 > s.1 {
            return None;
        }
        let mut out = String::new();
        for l in s.0 .0..=s.1 .0 {
            let line = &self.lines[l];
            let a = if l == s.0 .0 { s.0 .1 } else { 0 };
            let b = if l == s.1 .0 { s.1 .1 } else { line.len() };
            out.extend(line[a..b].iter());
            if l != s.1 .0 {
                out.push('\n');
            }
        }
        Some(out)
    }
}

struct Walk<'a> {
    info: &'a SrcInfo,
    spans: BTreeSet<Span>,
    problems: Vec<(String, String)>,
    nodes: usize,
}

impl<'a> Walk<'a> {
    fn problem(&mut self, sig: &str, msg: String) {
        if self.problems.len() < 4 {
            self.problems.push((sig.to_string(), msg));
        }
    }

    /// collect the AstNodes directly below `v` (not descending into nested AstNodes), skipping
    /// match patterns; match cases are transparent (only their arm expression counts)
    fn children<'v>(&self, v: &'v Value, out: &mut Vec<&'v Value>) {
        match v {
            Value::Object(o) => {
                for (k, x) in o {
                    if k == "pattern" {
                        continue;
                    }
                    if k == "cases" {
                        if let Some(arr) = x.as_array() {
                            for c in arr {
                                if let Some(e) = c.get("node").and_then(|n| n.get("expr")) {
                                    if is_astnode(e) {
                                        out.push(e);
                                    }
                                }
                            }
                        }
                        continue;
                    }
                    if is_astnode(x) {
                        out.push(x);
                    } else {
                        self.children(x, out);
                    }
                }
            }
            Value::Array(a) => {
                for x in a {
                    if is_astnode(x) {
                        out.push(x);
                    } else {
                        self.children(x, out);
                    }
                }
            }
            _ => {}
        }
    }

    fn node(&mut self, v: &Value, parent: Option<Span>) {
        self.nodes += 1;
        let span = match parse_span(v) {
            Some(s) => s,
            None => {
                self.problem("malformed-loc", format!("node without a readable loc: {}", v));
                return;
            }
        };
        if !self.info.valid(span.0) || !self.info.valid(span.1) || span.0 > span.1 {
            self.problem("outside-source", format!("span {:?} lies outside the source", span));
            return;
        }
        if let Some(p) = parent {
            if span.0 < p.0 || span.1 > p.1 {
                self.problem("child-outside-parent", format!("span {:?} is not contained in its parent's span {:?}", span, p));
            }
        }
        let empty = span.0 == span.1;
        if !empty {
            self.spans.insert(span);
        }
        let mut kids = Vec::new();
        self.children(&v["node"], &mut kids);
        // sibling spans are disjoint (zero-width bookkeeping nodes excepted)
        let mut ks: Vec<Span> = kids.iter().filter_map(|k| parse_span(k)).filter(|s| s.0 != s.1).collect();
        ks.sort();
        for w in ks.windows(2) {
            if w[1].0 < w[0].1 {
                self.problem("siblings-overlap", format!("sibling spans {:?} and {:?} overlap", w[0], w[1]));
            }
        }
        for k in kids {
            self.node(k, Some(span));
        }
    }
}

/// literals in the canonical text the AST walk (astnorm) produces
fn canon_lits(e: &E) -> E {
    e.map(&mut |n| match &n {
        E::Lit(v) => E::Raw(match v {
            rscel::CelValue::Int(i) => format!("{}", i),
            rscel::CelValue::UInt(u) => format!("{}u", u),
            rscel::CelValue::Float(f) => format!("{:?}", f),
            rscel::CelValue::String(s) => format!("{:?}", s),
            rscel::CelValue::Bytes(b) => format!("b{:?}", b.as_slice().to_vec()),
            rscel::CelValue::Bool(b) => format!("{}", b),
            rscel::CelValue::Null => "null".to_string(),
            other => format!("{:?}", other),
        }),
        _ => n,
    })
}

/// differences of representation (not of structure) between the harness tree and the AST walk
fn same_form(e: &E) -> E {
    e.map(&mut |n| match n {
        E::FStr(_) => E::Raw("<fstring>".into()),
        E::Raw(s) if s.starts_with("FStringList") => E::Raw("<fstring>".into()),
        E::Match(s, cases) => E::Match(
            s,
            cases
                .into_iter()
                .map(|(p, b)| {
                    let p2 = match p {
                        gen::Pat::Cmp(o, x) if o.is_empty() => gen::Pat::Cmp("==".into(), x),
                        // `list` / `object` are ordinary identifiers and `null` the literal: the
                        // compiler reads them as comparison patterns
                        gen::Pat::Type(t) if t == "null" => gen::Pat::Cmp("==".into(), E::Raw("null".into())),
                        gen::Pat::Type(t) if t == "list" || t == "object" => gen::Pat::Cmp("==".into(), E::Var(t)),
                        gen::Pat::Type(t) if t == "double" => gen::Pat::Type("float".into()),
                        other => other,
                    };
                    (p2, b)
                })
                .collect(),
        ),
        other => other,
    })
}

fn desugar(e: &E) -> E {
    // multi-token literal spellings become trees of single-token literals
    e.map(&mut |n| match &n {
        E::Lit(v) => gen::structured(v),
        _ => n,
    })
}

fn no_fstr_match(e: &E) -> bool {
    let mut ok = !matches!(e, E::FStr(_));
    e.for_children(&mut |c| ok &= no_fstr_match(c));
    ok
}

fn check_program(rep: &mut Rep, rng: &mut Rng, t: &E, stage: &str) {
    let ws = *rng.pick(&[Ws::Pretty, Ws::Tight, Ws::Random, Ws::Random]);
    let pm = *rng.pick(&[Parens::Minimal, Parens::Minimal, Parens::Random, Parens::Redundant]);
    let r = gen::render_opts(t, ws, pm, Some(rng), true);
    // trailing / leading white space must not be part of the root span
    let lead: String = (0..rng.below(3)).map(|_| *rng.pick(&[' ', '\t'])).collect();
    let trail: String = (0..rng.below(3)).map(|_| *rng.pick(&[' ', '\t', '\n'])).collect();
    let src = format!("{}{}{}", lead, r.text, trail);
    let shift = lead.chars().count();
    let sh = |p: Pos| -> Pos { if p.0 == 0 { (0, p.1 + shift) } else { p } };
    rep.eval();
    let prog = match mon::compile(&src) {
        Ok(p) => p,
        Err(o) => {
            if o.is_panic() {
                rep.viol("compile-panic", &o.show(), json!({"source": src}));
            }
            rep.count("rejected");
            return;
        }
    };
    let ast = match prog.ast() {
        Some(a) => a,
        None => {
            rep.viol("no-ast", "compiled program has no syntax tree", json!({"source": src}));
            return;
        }
    };
    let j = serde_json::to_value(ast).expect("AST serialises");
    let info = SrcInfo::new(&src);
    let mut w = Walk { info: &info, spans: BTreeSet::new(), problems: Vec::new(), nodes: 0 };
    w.node(&j, None);
    rep.add("ast_nodes_walked", w.nodes as u64);
    for (sig, msg) in w.problems.clone() {
        rep.viol(&format!("structure|{}", sig), &format!("{} in `{}`", msg, mon::clip(&src, 200)), json!({"source": src}));
    }
    // root spans the whole expression without surrounding white space
    let root = parse_span(&j);
    let want_root: Span = (sh((r.toks[0].line, r.toks[0].col)), sh((r.toks.last().unwrap().end_line, r.toks.last().unwrap().end_col)));
    if root != Some(want_root) {
        rep.viol(
            &format!("root-span|{}", root_kind(t)),
            &format!("root span is {:?}, the expression occupies {:?} in `{}`", root, want_root, mon::clip(&src, 200)),
            json!({"source": src}),
        );
    }
    // renderer spans vs AST spans
    let mut expected: BTreeSet<Span> = BTreeSet::new();
    for s in r.spans.iter().filter(|s| s.has_ast) {
        let (a, b) = r.span_of(s);
        let sp = (sh(a), sh(b));
        expected.insert(sp);
        if !w.spans.contains(&sp) {
            rep.viol(
                &format!("span-missing|{}", s.kind),
                &format!("no syntax-tree node has the span {:?} of the {} `{}` in `{}`", sp, s.kind, mon::clip(&info.slice(sp).unwrap_or_default(), 80), mon::clip(&src, 200)),
                json!({"source": src, "kind": s.kind, "span": format!("{:?}", sp)}),
            );
        }
    }
    for sp in w.spans.iter() {
        if !expected.contains(sp) {
            rep.viol(
                "span-unexpected",
                &format!("a syntax-tree node has span {:?} = `{}`, which is no sub-expression of `{}`", sp, mon::clip(&info.slice(*sp).unwrap_or_default(), 80), mon::clip(&src, 200)),
                json!({"source": src, "span": format!("{:?}", sp)}),
            );
        }
    }
    // compiling the spanned text on its own yields the same subtree (a sample of nodes)
    let with_expr: Vec<&gen::NodeSpan> = r.spans.iter().filter(|s| s.has_ast && s.expr.is_some()).collect();
    for _ in 0..with_expr.len().min(4) {
        let s = *rng.pick(&with_expr);
        let (a, b) = r.span_of(s);
        let sp = (sh(a), sh(b));
        if let Some(text) = info.slice(sp) {
            rep.eval();
            rep.count("slices_recompiled");
            let want = same_form(&canon_lits(&astnorm::strip_parens(s.expr.as_ref().unwrap())));
            match mon::compile(&text).map(|p| p.ast().map(astnorm::expr)) {
                Ok(Some(got)) => {
                    let got = same_form(&got);
                    if got != want {
                        rep.viol(
                            &format!("slice-subtree|{}", s.kind),
                            &format!("the text `{}` of span {:?} compiles to a different tree than the node it was cut from", mon::clip(&text, 120), sp),
                            json!({"source": src, "slice": text, "got": format!("{:?}", got).chars().take(400).collect::<String>(), "want": format!("{:?}", want).chars().take(400).collect::<String>()}),
                        );
                    }
                }
                _ => rep.viol(
                    &format!("slice-rejected|{}", s.kind),
                    &format!("the text `{}` of span {:?} does not compile on its own", mon::clip(&text, 120), sp),
                    json!({"source": src, "slice": text}),
                ),
            }
        }
    }
    rep.distinct(&src, r.spans.len() >= 3);
    rep.sample(|| json!({"stage": stage, "source": mon::clip(&src, 200), "nodes": w.nodes, "renderer_spans": expected.len()}));
}

fn root_kind(t: &E) -> &'static str {
    match t {
        E::Match(..) => "match",
        E::Tern(..) => "ternary",
        E::Bin(..) => "binary",
        E::Un(..) => "unary",
        _ => "other",
    }
}

fn check_tokens(rep: &mut Rep, src: &str) {
    let info = SrcInfo::new(src);
    let mut tk = StringTokenizer::with_input(src);
    let mut prev_end: Option<Pos> = None;
    let mut n = 0;
    loop {
        let t = match mon::catch(|| tk.next()) {
            Ok(Ok(Some(t))) => t,
            Ok(Ok(None)) => break,
            Ok(Err(_)) => break,
            Err((m, l)) => {
                rep.viol("token|panic", &format!("{} at {}", m, l), json!({"source": src}));
                return;
            }
        };
        n += 1;
        if n > src.chars().count() + 1 {
            rep.viol("token|too-many", "the tokenizer produced more tokens than characters", json!({"source": src}));
            return;
        }
        let sp: Span = ((t.loc.start().line(), t.loc.start().col()), (t.loc.end().line(), t.loc.end().col()));
        rep.count("tokens_checked");
        if !info.valid(sp.0) || !info.valid(sp.1) || sp.0 >= sp.1 {
            rep.viol("token|span-invalid", &format!("token {:?} has span {:?}", t.token, sp), json!({"source": src}));
            continue;
        }
        if let Some(pe) = prev_end {
            if sp.0 < pe {
                rep.viol("token|overlap", &format!("token {:?} at {:?} starts before the previous token ended ({:?})", t.token, sp, pe), json!({"source": src}));
            }
        }
        prev_end = Some(sp.1);
        // the span's text re-lexes to exactly that token
        let text = info.slice(sp).unwrap();
        let mut tk2 = StringTokenizer::with_input(&text);
        let again = mon::catch(|| (tk2.next(), tk2.next()));
        let ok = match &again {
            Ok((Ok(Some(a)), Ok(None))) => format!("{:?}", a.token) == format!("{:?}", t.token),
            _ => false,
        };
        if !ok {
            rep.viol(
                "token|relex",
                &format!("token {:?} has span {:?} = `{}`, which does not lex back to that single token", t.token, sp, mon::clip(&text, 80)),
                json!({"source": src, "span_text": text}),
            );
        }
    }
}

fn check_error_loc(rep: &mut Rep, src: &str) {
    rep.eval();
    if let Err(Out::Err(CelError::Syntax(se))) = mon::compile(src) {
        rep.count("syntax_errors_located");
        let info = SrcInfo::new(src);
        let loc = (se.loc().line(), se.loc().col());
        if !info.valid(loc) {
            rep.viol(
                "error-location",
                &format!("syntax error reported at line {}, column {} but the source has {} line(s){}", loc.0, loc.1, info.lines.len(),
                    info.lines.get(loc.0).map(|l| format!(" and that line has {} characters", l.len())).unwrap_or_default()),
                json!({"source": src, "line": loc.0, "col": loc.1}),
            );
        }
    }
}

pub fn run(ctx: &mut Ctx) {
    let n = ctx.n(80_000, 1_500_000);
    ctx.stage("spans", n, true, |_idx, rng, rep| {
        let nv = rng.below(4);
        let vars = gen::random_vars(rng, nv);
        let mut cfg = GenCfg::basic(vars);
        cfg.ill_typed_pct = 5;
        cfg.allow_fstr = rng.chance(1, 3);
        let ty = gen::random_ty(rng, 1);
        let depth = 1 + rng.below(4) as u32;
        let t = desugar(&Gen::new(rng, cfg).expr(&ty, depth));
        let _ = no_fstr_match;
        check_program(rep, rng, &t, "spans");
        // token stream of the same text (multi-line, multi-byte literals included)
        if rng.chance(1, 3) {
            let src = gen::render(&t, Ws::Random, Parens::Random, Some(rng)).text;
            check_tokens(rep, &src);
        }
    });

    // ---- corrupted variants: the reported location lies inside the source ---------------------------
    let ne = ctx.n(150_000, 1_500_000);
    ctx.stage("error-locations", ne, true, |_idx, rng, rep| {
        let base: String = if rng.chance(1, 2) {
            rng.pick(crate::corpus::CORPUS).to_string()
        } else {
            let vars = gen::random_vars(rng, 2);
            let cfg = GenCfg::basic(vars);
            let ty = gen::random_ty(rng, 1);
            let t = Gen::new(rng, cfg).expr(&ty, 2);
            gen::render(&t, Ws::Random, Parens::Minimal, Some(rng)).text
        };
        let mut chars: Vec<char> = base.chars().collect();
        for _ in 0..(1 + rng.below(3)) {
            let pos = rng.below(chars.len() + 1);
            match rng.below(5) {
                0 => {
                    if pos < chars.len() {
                        chars.remove(pos);
                    }
                }
                1 => chars.truncate(pos),
                2 => chars.insert(pos, *rng.pick(&['(', ')', '[', ']', '{', '}', '\'', '"', '\\', '\n', '=', '|', '&', '?', ':', ',', '.', '#', 'é', '😀', '\u{0}'])),
                3 => {
                    for c in rng.pick(&["\n\n", " \n ", "'\\u12", "b'\\7", "0x", "1e", "match ", "case ", "f'{", "f'}'", "\\", "'\n"]).chars().rev() {
                        chars.insert(pos, c);
                    }
                }
                _ => {
                    if pos < chars.len() {
                        chars[pos] = *rng.pick(&['\n', '(', '\'', ' ', '`', '@']);
                    }
                }
            }
        }
        let src: String = chars.into_iter().collect();
        check_error_loc(rep, &src);
        if rng.chance(1, 10) {
            check_tokens(rep, &src);
        }
        rep.distinct(&src, true);
    });

    // ---- errors inside constructs that are scanned by a nested tokenizer (f-strings), in multi-line layouts ----------
    // The location of an error inside `f'..{expr}..'` has to be translated from the embedded text to the whole
    // source: short lines above, the f-string at any column, the error at any offset, f-strings inside f-strings.
    const BROKEN: [&str; 14] = ["a +", "x.y(", "(", "1 1", "[", "a ? b", "a ? b :", ")", "a.", "1 +* 2", "a[", "{'k':", "match a {", "!"];
    let nf = ctx.n(40_000, 400_000);
    ctx.stage("embedded-error-locations", nf, true, |_idx, rng, rep| {
        let nlines_above = rng.below(5);
        let mut src = String::new();
        // an enclosing list / call / map so that the layout is legal CEL up to the f-string
        let opener = *rng.pick(&["[", "size([", "{'k': [", "(", ""]);
        src.push_str(opener);
        for _ in 0..nlines_above {
            // short lines: shorter than the column the f-string will stand in
            src.push_str(*rng.pick(&["\n", "\n1,", "\n 'a',", "\n\t2 ,", "\n  [] ,"]));
        }
        if rng.chance(3, 4) {
            src.push('\n');
        }
        for _ in 0..rng.below(30) {
            src.push(' ');
        }
        let q = *rng.pick(&['\'', '"']);
        let inner_q = if q == '\'' { '"' } else { '\'' };
        let broken = *rng.pick(&BROKEN);
        let lead: String = (0..rng.below(12)).map(|_| *rng.pick(&['x', ' ', 'é', '-'])).collect();
        let body = match rng.below(4) {
            0 => format!("{}{{{}}}", lead, broken),
            1 => format!("{}{{a}}{{{}}}tail", lead, broken),
            // an f-string inside the embedded expression of an f-string
            2 => format!("{}{{f{iq}{{{}}}{iq}}}", lead, broken, iq = inner_q),
            _ => format!("{}{{ {} }}", lead, broken),
        };
        src.push_str(&format!("f{q}{}{q}", body, q = q));
        if rng.chance(1, 2) {
            src.push_str(*rng.pick(&["\n]", "]", "\n\n", ", 1]", ")"]));
        }
        rep.count("embedded_error_sources");
        check_error_loc(rep, &src);
        rep.distinct(&src, true);
        rep.sample(|| json!({"stage":"embedded-error-locations","source":mon::clip(&src, 160)}));
    });
}
