//! Small deterministic PRNG (splitmix64 seeding, xoshiro256**). No external crates.

#[derive(Clone)]
pub struct Rng {
    s: [u64; 4],
}

pub fn splitmix(x: &mut u64) -> u64 {
    *x = x.wrapping_add(0x9E3779B97F4A7C15);
    let mut z = *x;
    z = (z ^ (z >> 30)).wrapping_mul(0xBF58476D1CE4E5B9);
    z = (z ^ (z >> 27)).wrapping_mul(0x94D049BB133111EB);
    z ^ (z >> 31)
}

pub fn mix(parts: &[u64]) -> u64 {
    let mut h: u64 = 0x243F6A8885A308D3;
    for p in parts {
        h ^= *p;
        let mut t = h;
        h = splitmix(&mut t);
    }
    h
}

pub fn hash_str(s: &str) -> u64 {
    // FNV-1a 64 followed by a finaliser
    let mut h: u64 = 0xcbf29ce484222325;
    for b in s.as_bytes() {
        h ^= *b as u64;
        h = h.wrapping_mul(0x100000001b3);
    }
    let mut t = h;
    splitmix(&mut t)
}

impl Rng {
    pub fn new(seed: u64) -> Rng {
        let mut x = seed;
        let s = [
            splitmix(&mut x),
            splitmix(&mut x),
            splitmix(&mut x),
            splitmix(&mut x),
        ];
        Rng { s }
    }

    pub fn next(&mut self) -> u64 {
        let result = self.s[1].wrapping_mul(5).rotate_left(7).wrapping_mul(9);
        let t = self.s[1] << 17;
        self.s[2] ^= self.s[0];
        self.s[3] ^= self.s[1];
        self.s[1] ^= self.s[2];
        self.s[0] ^= self.s[3];
        self.s[2] ^= t;
        self.s[3] = self.s[3].rotate_left(45);
        result
    }

    /// uniform in [0, n)
    pub fn below(&mut self, n: usize) -> usize {
        if n <= 1 {
            return 0;
        }
        (self.next() % (n as u64)) as usize
    }

    /// uniform in [lo, hi] inclusive
    pub fn range(&mut self, lo: i64, hi: i64) -> i64 {
        if hi <= lo {
            return lo;
        }
        let span = (hi as i128 - lo as i128 + 1) as u128;
        (lo as i128 + (self.next() as u128 % span) as i128) as i64
    }

    pub fn chance(&mut self, num: u32, den: u32) -> bool {
        (self.next() % den as u64) < num as u64
    }

    pub fn pick<'a, T>(&mut self, xs: &'a [T]) -> &'a T {
        &xs[self.below(xs.len())]
    }

    pub fn f64_bits(&mut self) -> f64 {
        f64::from_bits(self.next())
    }
}
