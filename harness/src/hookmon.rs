//! Trace monitor over the `rscel::verif` hook: per VM frame it checks that the program counter
//! strictly increases (loop-free), that a frame executes at most one step per instruction, that
//! control only moves to pc+1 or to the jump target, and that the observed stack height before
//! every step equals the height predicted from the previous instruction's stack effect (which
//! cross-validates the structural walker's effect table against the real VM).

use std::cell::RefCell;
use std::rc::Rc;

use rscel::verif::{self, Event};

#[derive(Default, Clone, Debug)]
pub struct Trace {
    pub frames: u64,
    pub steps: u64,
    pub max_depth: usize,
    pub max_open: usize,
    pub open: usize,
    pub frame_ends: u64,
    pub folds_ok: u64,
    pub folds_no: u64,
    pub problems: Vec<String>,
    /// depth value seen at each FrameEnter, in order (bounded)
    pub depths: Vec<usize>,
    /// end-of-frame stack heights that were not 1
    pub bad_end_heights: u64,
    pub ops_seen: u32,
    /// (taken, not taken) conditional jumps observed
    pub jcond_taken: u64,
    pub jcond_fall: u64,
}

struct Frame {
    len: usize,
    steps: usize,
    prev: Option<(usize, u8, i64, usize)>,
}

struct State {
    t: Trace,
    stack: Vec<Frame>,
    strict_forward: bool,
}

pub fn effect(op: u8, arg: i64) -> i64 {
    match op {
        0 => 1,                    // Push
        1 => -1,                   // Pop
        2 => 0,                    // Test
        3 => 1,                    // Dup
        4 | 5 => -1,               // Or And
        6 | 7 => 0,                // Not Neg
        8..=19 => -1,              // binary operators
        20 => 0,                   // Jmp
        21 | 22 => -1,             // JmpCond
        23 => 1 - arg,             // MkList
        24 => 1 - 2 * arg,         // MkDict
        25 | 26 => -1,             // Index Access
        27 => -arg,                // Call: callee + n args -> 1
        28 => 1 - arg,             // FmtString
        _ => 0,
    }
}

impl State {
    fn problem(&mut self, s: String) {
        if self.t.problems.len() < 8 {
            self.t.problems.push(s);
        }
    }
    fn on(&mut self, ev: Event) {
        match ev {
            Event::FrameEnter { depth, len } => {
                self.t.frames += 1;
                self.t.open += 1;
                self.t.max_open = self.t.max_open.max(self.t.open);
                self.t.max_depth = self.t.max_depth.max(depth);
                if self.t.depths.len() < 4096 {
                    self.t.depths.push(depth);
                }
                self.stack.push(Frame { len, steps: 0, prev: None });
            }
            Event::Step { pc, op, arg, stack_len } => {
                self.t.steps += 1;
                self.t.ops_seen |= 1u32 << op.min(31);
                let strict = self.strict_forward;
                let mut msg: Option<String> = None;
                if let Some(f) = self.stack.last_mut() {
                    f.steps += 1;
                    if pc >= f.len {
                        msg = Some(format!("fetched pc {} outside block of length {}", pc, f.len));
                    }
                    if strict && f.steps > f.len {
                        msg = Some(format!("frame executed {} steps in a block of {} instructions", f.steps, f.len));
                    }
                    if let Some((ppc, pop, parg, pstack)) = f.prev {
                        let next = ppc as i64 + 1;
                        let target = next + parg;
                        let ok_pc = match pop {
                            20 => pc as i64 == target,
                            21 | 22 => pc as i64 == target || pc as i64 == next,
                            _ => pc as i64 == next,
                        };
                        if !ok_pc {
                            msg = Some(format!("control moved from pc {} (op {}, arg {}) to pc {}", ppc, pop, parg, pc));
                        }
                        if strict && pc <= ppc {
                            msg = Some(format!("pc went backwards: {} -> {}", ppc, pc));
                        }
                        let want = pstack as i64 + effect(pop, parg);
                        if want != stack_len as i64 {
                            msg = Some(format!(
                                "stack height {} before pc {} but op {} (arg {}) at pc {} with height {} predicts {}",
                                stack_len, pc, pop, parg, ppc, pstack, want
                            ));
                        }
                        if pop == 21 || pop == 22 {
                            if pc as i64 == next && target != next {
                                self.t.jcond_fall += 1;
                            } else {
                                self.t.jcond_taken += 1;
                            }
                        }
                    } else if pc != 0 {
                        msg = Some(format!("frame started at pc {}", pc));
                    } else if stack_len != 0 {
                        msg = Some(format!("frame started with {} values on its stack", stack_len));
                    }
                    f.prev = Some((pc, op, arg, stack_len));
                } else {
                    msg = Some("step outside any frame".to_string());
                }
                if let Some(m) = msg {
                    self.problem(m);
                }
            }
            Event::FrameEnd { stack_len } => {
                self.t.frame_ends += 1;
                let mut msg = None;
                if let Some(f) = self.stack.last() {
                    if let Some((ppc, pop, parg, pstack)) = f.prev {
                        let want = pstack as i64 + effect(pop, parg);
                        if want != stack_len as i64 {
                            msg = Some(format!(
                                "end-of-block height {} but last op {} (arg {}) at pc {} with height {} predicts {}",
                                stack_len, pop, parg, ppc, pstack, want
                            ));
                        }
                        // a block may only run off its end at exactly its length: when the last executed instruction is a
                        // jump, either it was not taken and was the last instruction, or its target is the block's length
                        if (20..=22).contains(&pop) {
                            let next = ppc as i64 + 1;
                            let target = next + parg;
                            let fell_off_end = pop != 20 && next == f.len as i64;
                            if target != f.len as i64 && !fell_off_end {
                                msg = Some(format!(
                                    "jump out of range accepted: op {} at pc {} with distance {} targets {} in a block of length {} and the block ended normally",
                                    pop, ppc, parg, target, f.len
                                ));
                            }
                        }
                    }
                }
                if stack_len != 1 {
                    self.t.bad_end_heights += 1;
                }
                if let Some(m) = msg {
                    self.problem(m);
                }
            }
            Event::FrameExit => {
                if self.t.open == 0 {
                    self.problem("frame exit without a matching enter".to_string());
                } else {
                    self.t.open -= 1;
                }
                self.stack.pop();
            }
            Event::ConstFold { folded } => {
                if folded {
                    self.t.folds_ok += 1
                } else {
                    self.t.folds_no += 1
                }
            }
        }
    }
}

/// Run `f` with the trace monitor installed on this thread. `strict_forward`: also demand
/// loop-freedom (pc strictly increasing, steps <= block length).
pub fn with_trace<T>(strict_forward: bool, f: impl FnOnce() -> T) -> (T, Trace) {
    let st = Rc::new(RefCell::new(State {
        t: Trace::default(),
        stack: Vec::new(),
        strict_forward,
    }));
    let st2 = st.clone();
    verif::set_sink(Box::new(move |ev| st2.borrow_mut().on(ev)));
    let r = f();
    verif::clear_sink();
    let t = st.borrow().t.clone();
    (r, t)
}
