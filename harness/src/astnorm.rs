//! Walk of the public grammar types (`rscel::{Expr, ConditionalOr, ...}`) into the harness's own
//! abstract tree (`gen::E`), collapsing the single-child wrapper chain and parentheses.

use rscel::{
    AddOp, Addition, AstNode, ConditionalAnd, ConditionalOr, Expr, LiteralsAndKeywords, MatchCmpOp, MatchPattern,
    Member, MemberPrime, MultOp, Multiplication, NegList, NotList, Primary, Relation, Relop, Unary,
};

use crate::gen::{BinOp, Pat, E};

pub fn expr(e: &AstNode<Expr>) -> E {
    match e.node() {
        Expr::Unary(or) => cor(or),
        Expr::Ternary { condition, true_clause, false_clause } => {
            E::Tern(Box::new(cor(condition)), Box::new(cor(true_clause)), Box::new(expr(false_clause)))
        }
        Expr::Match { condition, cases } => E::Match(
            Box::new(expr(condition)),
            cases
                .iter()
                .map(|c| {
                    let mc = c.node();
                    let p = match mc.pattern.node() {
                        MatchPattern::Any(_) => Pat::Any,
                        MatchPattern::Type(t) => Pat::Type(format!("{:?}", t.node()).to_lowercase()),
                        MatchPattern::Cmp { op, or } => Pat::Cmp(
                            match op.node() {
                                MatchCmpOp::Eq => "==",
                                MatchCmpOp::Neq => "!=",
                                MatchCmpOp::Gt => ">",
                                MatchCmpOp::Ge => ">=",
                                MatchCmpOp::Lt => "<",
                                MatchCmpOp::Le => "<=",
                            }
                            .to_string(),
                            cor(or),
                        ),
                    };
                    (p, expr(&mc.expr))
                })
                .collect(),
        ),
    }
}

fn cor(n: &AstNode<ConditionalOr>) -> E {
    match n.node() {
        ConditionalOr::Binary { lhs, rhs } => E::Bin(BinOp::Or, Box::new(cor(lhs)), Box::new(cand(rhs))),
        ConditionalOr::Unary(a) => cand(a),
    }
}

fn cand(n: &AstNode<ConditionalAnd>) -> E {
    match n.node() {
        ConditionalAnd::Binary { lhs, rhs } => E::Bin(BinOp::And, Box::new(cand(lhs)), Box::new(rel(rhs))),
        ConditionalAnd::Unary(r) => rel(r),
    }
}

fn rel(n: &AstNode<Relation>) -> E {
    match n.node() {
        Relation::Binary { lhs, op, rhs } => {
            let o = match op {
                Relop::Le => BinOp::Le,
                Relop::Lt => BinOp::Lt,
                Relop::Ge => BinOp::Ge,
                Relop::Gt => BinOp::Gt,
                Relop::Eq => BinOp::Eq,
                Relop::Ne => BinOp::Ne,
                Relop::In => BinOp::In,
            };
            E::Bin(o, Box::new(rel(lhs)), Box::new(add(rhs)))
        }
        Relation::Unary(a) => add(a),
    }
}

fn add(n: &AstNode<Addition>) -> E {
    match n.node() {
        Addition::Binary { lhs, op, rhs } => {
            let o = match op {
                AddOp::Add => BinOp::Add,
                AddOp::Sub => BinOp::Sub,
            };
            E::Bin(o, Box::new(add(lhs)), Box::new(mul(rhs)))
        }
        Addition::Unary(m) => mul(m),
    }
}

fn mul(n: &AstNode<Multiplication>) -> E {
    match n.node() {
        Multiplication::Binary { lhs, op, rhs } => {
            let o = match op {
                MultOp::Mult => BinOp::Mul,
                MultOp::Div => BinOp::Div,
                MultOp::Mod => BinOp::Mod,
            };
            E::Bin(o, Box::new(mul(lhs)), Box::new(unary(rhs)))
        }
        Multiplication::Unary(u) => unary(u),
    }
}

fn not_count(n: &AstNode<NotList>) -> usize {
    let mut c = 0;
    let mut cur = n;
    while let NotList::List { tail } = cur.node() {
        c += 1;
        cur = tail;
    }
    c
}

fn neg_count(n: &AstNode<NegList>) -> usize {
    let mut c = 0;
    let mut cur = n;
    while let NegList::List { tail } = cur.node() {
        c += 1;
        cur = tail;
    }
    c
}

fn unary(n: &AstNode<Unary>) -> E {
    match n.node() {
        Unary::Member(m) => member(m),
        Unary::NotMember { nots, member: m } => E::Un('!', not_count(nots), Box::new(member(m))),
        Unary::NegMember { negs, member: m } => E::Un('-', neg_count(negs), Box::new(member(m))),
    }
}

fn member(n: &AstNode<Member>) -> E {
    let m = n.node();
    let mut base = primary(&m.primary);
    for p in &m.member {
        base = match p.node() {
            MemberPrime::MemberAccess { ident } => E::Field(Box::new(base), ident.node().0.clone()),
            MemberPrime::ArrayAccess { access } => E::Index(Box::new(base), Box::new(expr(access))),
            MemberPrime::Call { call } => {
                let args: Vec<E> = call.node().exprs.iter().map(expr).collect();
                match base {
                    E::Field(recv, name) => E::Method(recv, name, args),
                    E::Var(name) => E::Call(name, args),
                    other => E::Method(Box::new(other), "<call>".to_string(), args),
                }
            }
            MemberPrime::Empty => base,
        };
    }
    base
}

fn primary(n: &AstNode<Primary>) -> E {
    match n.node() {
        Primary::Ident(i) => E::Var(i.0.clone()),
        Primary::Parens(e) => expr(e),
        Primary::ListConstruction(l) => E::List(l.node().exprs.iter().map(expr).collect()),
        Primary::ObjectInit(o) => E::Map(o.node().inits.iter().map(|i| (expr(&i.node().key), expr(&i.node().value))).collect()),
        Primary::Literal(l) => E::Raw(match l {
            LiteralsAndKeywords::IntegerLit(i) => format!("{}", i),
            LiteralsAndKeywords::UnsignedLit(u) => format!("{}u", u),
            LiteralsAndKeywords::FloatingLit(f) => format!("{:?}", f),
            LiteralsAndKeywords::StringLit(s) => format!("{:?}", s),
            LiteralsAndKeywords::ByteStringLit(b) => format!("b{:?}", b),
            LiteralsAndKeywords::BooleanLit(b) => format!("{}", b),
            LiteralsAndKeywords::NullLit => "null".to_string(),
            other => format!("{:?}", other),
        }),
        Primary::Type => E::Raw("<type>".to_string()),
    }
}

/// strip explicit parentheses from a harness tree (the AST walk collapses them)
pub fn strip_parens(e: &E) -> E {
    e.map(&mut |n| match n {
        E::Paren(inner) => *inner,
        other => other,
    })
}
