//! Monitor plumbing: outcome capture, panic hook, journal, reporter (violations, counters,
//! samples, distinct-case hashes), stage/case iteration with per-case PRNGs.

use std::cell::RefCell;
use std::collections::{BTreeMap, HashSet};
use std::fs::File;
use std::io::Write;
use std::os::unix::fs::FileExt;
use std::panic::{catch_unwind, AssertUnwindSafe};

use rscel::{BindContext, CelContext, CelError, CelValue, Program};
use serde_json::{json, Value};

use crate::rng::{hash_str, mix, Rng};

// ------------------------------------------------------------------------------------------
// panic capture

thread_local! {
    static LAST_PANIC: RefCell<Option<(String, String)>> = RefCell::new(None);
}

pub fn install_panic_hook() {
    std::panic::set_hook(Box::new(|info| {
        let msg = if let Some(s) = info.payload().downcast_ref::<&str>() {
            s.to_string()
        } else if let Some(s) = info.payload().downcast_ref::<String>() {
            s.clone()
        } else {
            "<non-string panic payload>".to_string()
        };
        let loc = info
            .location()
            .map(|l| format!("{}:{}", l.file(), l.line()))
            .unwrap_or_else(|| "<unknown>".to_string());
        LAST_PANIC.with(|p| *p.borrow_mut() = Some((msg, loc)));
    }));
}

/// Run `f`, turning a panic into `Err((message, location))`.
pub fn catch<T>(f: impl FnOnce() -> T) -> Result<T, (String, String)> {
    LAST_PANIC.with(|p| *p.borrow_mut() = None);
    match catch_unwind(AssertUnwindSafe(f)) {
        Ok(v) => Ok(v),
        Err(_) => Err(LAST_PANIC
            .with(|p| p.borrow_mut().take())
            .unwrap_or_else(|| ("<panic>".to_string(), "<unknown>".to_string()))),
    }
}

/// digits -> '#', strip the checkout prefix: a stable class key for a panic
pub fn panic_sig(msg: &str, loc: &str) -> String {
    // quoted / backticked payload (user data) is dropped, digits are folded
    let mut m = String::new();
    let mut quote: Option<char> = None;
    for c in msg.chars() {
        match quote {
            Some(q) => {
                if c == q {
                    quote = None;
                    m.push(c);
                }
            }
            None => {
                if c == '`' || c == '"' {
                    quote = Some(c);
                    m.push(c);
                } else if c.is_ascii_digit() {
                    m.push('#');
                } else {
                    m.push(c);
                }
            }
        }
    }
    while m.contains("##") {
        m = m.replace("##", "#");
    }
    if m.len() > 80 {
        let mut cut = 80;
        while !m.is_char_boundary(cut) {
            cut -= 1;
        }
        m.truncate(cut);
    }
    let l = loc
        .rsplit_once("/src/")
        .map(|(a, b)| {
            let krate = a.rsplit('/').next().unwrap_or("");
            format!("{}/src/{}", krate, b)
        })
        .unwrap_or_else(|| loc.to_string());
    // drop the line number: it moves with unrelated edits
    let l = l.rsplit_once(':').map(|(a, _)| a.to_string()).unwrap_or(l);
    format!("{}@{}", m, l)
}

// ------------------------------------------------------------------------------------------
// outcomes

#[derive(Clone, Debug)]
pub enum Out {
    Val(CelValue),
    Err(CelError),
    Panic(String, String),
}

pub fn err_variant(e: &CelError) -> &'static str {
    match e {
        CelError::Misc(_) => "Misc",
        CelError::Syntax(_) => "Syntax",
        CelError::Value(_) => "Value",
        CelError::Argument(_) => "Argument",
        CelError::InvalidOp(_) => "InvalidOp",
        CelError::Runtime(_) => "Runtime",
        CelError::Binding { .. } => "Binding",
        CelError::Attribute { .. } => "Attribute",
        CelError::DivideByZero => "DivideByZero",
        CelError::Internal(_) => "Internal",
    }
}

impl Out {
    pub fn is_val(&self) -> bool {
        matches!(self, Out::Val(_))
    }
    pub fn is_err(&self) -> bool {
        matches!(self, Out::Err(_))
    }
    pub fn is_panic(&self) -> bool {
        matches!(self, Out::Panic(..))
    }
    pub fn val(&self) -> Option<&CelValue> {
        match self {
            Out::Val(v) => Some(v),
            _ => None,
        }
    }
    /// short class: value type / error variant / panic
    pub fn class(&self) -> String {
        match self {
            Out::Val(v) => format!("val:{}", vtype(v)),
            Out::Err(e) => format!("err:{}", err_variant(e)),
            Out::Panic(..) => "panic".to_string(),
        }
    }
    /// canonical, bit-exact rendering (errors by variant only)
    pub fn canon(&self) -> String {
        match self {
            Out::Val(v) => canon(v),
            Out::Err(e) => format!("ERR:{}", err_variant(e)),
            Out::Panic(m, l) => format!("PANIC:{}", panic_sig(m, l)),
        }
    }
    /// values bit-exact, every error one class
    pub fn canon_anyerr(&self) -> String {
        match self {
            Out::Val(v) => canon(v),
            Out::Err(_) => "ERR".to_string(),
            Out::Panic(m, l) => format!("PANIC:{}", panic_sig(m, l)),
        }
    }
    pub fn show(&self) -> String {
        match self {
            Out::Val(v) => format!("Val({})", clip(&canon(v), 300)),
            Out::Err(e) => format!("Err({}: {})", err_variant(e), clip(&e.to_string(), 200)),
            Out::Panic(m, l) => format!("Panic({} at {})", clip(m, 200), l),
        }
    }
}

pub fn clip(s: &str, n: usize) -> String {
    if s.len() <= n {
        return s.to_string();
    }
    let mut cut = n;
    while !s.is_char_boundary(cut) {
        cut -= 1;
    }
    format!("{}...[{} bytes]", &s[..cut], s.len())
}

pub fn vtype(v: &CelValue) -> &'static str {
    match v {
        CelValue::Int(_) => "int",
        CelValue::UInt(_) => "uint",
        CelValue::Float(_) => "double",
        CelValue::Bool(_) => "bool",
        CelValue::String(_) => "string",
        CelValue::Bytes(_) => "bytes",
        CelValue::List(_) => "list",
        CelValue::Map(_) => "map",
        CelValue::Null => "null",
        CelValue::Ident(_) => "ident",
        CelValue::Type(_) => "type",
        CelValue::TimeStamp(_) => "timestamp",
        CelValue::Duration(_) => "duration",
        CelValue::ByteCode(_) => "bytecode",
        CelValue::Dyn(_) => "dyn",
        CelValue::Err(_) => "err",
        #[allow(unreachable_patterns)]
        _ => "proto",
    }
}

/// Canonical bit-exact text of a value: maps sorted by key, floats by bit pattern (all NaNs one
/// class), Int(1) / UInt(1) / Float(1.0) distinct.
pub fn canon(v: &CelValue) -> String {
    let mut s = String::new();
    canon_into(v, &mut s);
    s
}

fn canon_into(v: &CelValue, s: &mut String) {
    use std::fmt::Write as _;
    match v {
        CelValue::Int(i) => {
            let _ = write!(s, "i:{}", i);
        }
        CelValue::UInt(u) => {
            let _ = write!(s, "u:{}", u);
        }
        CelValue::Float(f) => {
            if f.is_nan() {
                s.push_str("f:nan");
            } else {
                let _ = write!(s, "f:{:016x}({:e})", f.to_bits(), f);
            }
        }
        CelValue::Bool(b) => {
            let _ = write!(s, "b:{}", b);
        }
        CelValue::String(x) => {
            let _ = write!(s, "s:{}", serde_json::to_string(x).unwrap());
        }
        CelValue::Bytes(b) => {
            s.push_str("y:");
            for byte in b.as_slice() {
                let _ = write!(s, "{:02x}", byte);
            }
        }
        CelValue::List(l) => {
            s.push('[');
            for (i, e) in l.iter().enumerate() {
                if i > 0 {
                    s.push(',');
                }
                canon_into(e, s);
            }
            s.push(']');
        }
        CelValue::Map(m) => {
            let mut keys: Vec<&String> = m.keys().collect();
            keys.sort();
            s.push('{');
            for (i, k) in keys.iter().enumerate() {
                if i > 0 {
                    s.push(',');
                }
                let _ = write!(s, "{}=", serde_json::to_string(k).unwrap());
                canon_into(&m[*k], s);
            }
            s.push('}');
        }
        CelValue::Null => s.push_str("null"),
        CelValue::Ident(i) => {
            let _ = write!(s, "id:{}", i);
        }
        CelValue::Type(t) => {
            let _ = write!(s, "t:{}", t);
        }
        CelValue::TimeStamp(t) => {
            let _ = write!(s, "ts:{}.{:09}", t.timestamp(), t.timestamp_subsec_nanos());
        }
        CelValue::Duration(d) => {
            let _ = write!(s, "d:{}.{:09}", d.num_seconds(), d.subsec_nanos());
        }
        CelValue::ByteCode(b) => {
            let _ = write!(s, "bc:{:?}", b);
        }
        CelValue::Dyn(d) => {
            let _ = write!(s, "dyn:{}", d);
        }
        CelValue::Err(e) => {
            let _ = write!(s, "ERRVAL:{}", err_variant(e));
        }
        #[allow(unreachable_patterns)]
        _ => s.push_str("proto"),
    }
}

pub type Binds = Vec<(String, CelValue)>;

pub fn bind_ctx<'a>(binds: &[(String, CelValue)]) -> BindContext<'a> {
    let mut b = BindContext::new();
    for (k, v) in binds {
        b.bind_param(k, v.clone());
    }
    b
}

pub fn binds_json(binds: &[(String, CelValue)]) -> Value {
    let mut m = serde_json::Map::new();
    for (k, v) in binds {
        m.insert(k.clone(), Value::String(canon(v)));
    }
    Value::Object(m)
}

/// Compile through the public API; a panic is an outcome.
/// RVMON_SHOW=1 prints every source before it is compiled (to find out what a non-returning case was doing).
pub fn show_src(src: &str) {
    thread_local!(static SHOW: bool = std::env::var("RVMON_SHOW").is_ok());
    if SHOW.with(|s| *s) {
        eprintln!("SRC {}", clip(src, 4000));
    }
}

pub fn compile(src: &str) -> Result<Program, Out> {
    show_src(src);
    match catch(|| Program::from_source(src)) {
        Ok(Ok(p)) => Ok(p),
        Ok(Err(e)) => Err(Out::Err(e)),
        Err((m, l)) => Err(Out::Panic(m, l)),
    }
}

pub fn exec_prog(ctx: &mut CelContext, name: &str, b: &BindContext) -> Out {
    match catch(|| ctx.exec(name, b)) {
        Ok(Ok(v)) => Out::Val(v),
        Ok(Err(e)) => Out::Err(e),
        Err((m, l)) => Out::Panic(m, l),
    }
}

/// Compile `src` in a fresh context and execute it under `binds`.
pub fn run1(src: &str, binds: &[(String, CelValue)]) -> Out {
    let prog = match compile(src) {
        Ok(p) => p,
        Err(o) => return o,
    };
    let out = run_prog(&prog, binds);
    reach_check(src, binds, &prog, &out);
    out
}

// ------------------------------------------------------------------------------------------
// position invariance: the same expression reached through another construct

/// State of the position-invariance monitor (per worker thread). Enabled per property by `Ctx`.
pub struct Reach {
    pub enabled: bool,
    pub period: u64,
    calls: u64,
    busy: bool,
    pub checked: u64,
    pub variants_run: u64,
    pub pending: Vec<(String, String, Value)>,
}

thread_local! {
    pub static REACH: std::cell::RefCell<Reach> = std::cell::RefCell::new(Reach { enabled: false, period: 12, calls: 0, busy: false, checked: 0, variants_run: 0, pending: Vec::new() });
}

fn bracket_depth(s: &str) -> usize {
    let (mut d, mut m) = (0usize, 0usize);
    for c in s.chars() {
        match c {
            '(' | '[' | '{' => {
                d += 1;
                m = m.max(d);
            }
            ')' | ']' | '}' => d = d.saturating_sub(1),
            _ => {}
        }
    }
    m
}

/// Every `period`-th evaluation that went through `run1` is repeated with the expression standing in
/// other positions - parenthesised, list element, map value, ternary branch, macro body over a literal
/// list (which the compiler may try to fold), behind `dyn()`, as a stored program referenced by name,
/// and executed a second time in one context. A value must come out bit-identical, a failure must stay
/// a failure. Sources near the nesting / call-depth limits and time-dependent sources are left alone.
fn reach_check(src: &str, binds: &[(String, CelValue)], prog: &Program, out: &Out) {
    let go = REACH.with(|r| {
        let mut r = r.borrow_mut();
        if !r.enabled || r.busy {
            return false;
        }
        r.calls += 1;
        r.calls % r.period == 0
    });
    if !go || out.is_panic() || src.len() > 400 || bracket_depth(src) > 8 || src.contains("now") || src.contains("timestamp()") || src.contains("zz_") {
        return;
    }
    REACH.with(|r| r.borrow_mut().busy = true);
    let want = out.canon_anyerr();
    let mut found: Vec<(String, String, Value)> = Vec::new();
    let mut nvar = 0u64;
    {
        let mut judge = |name: &str, text: &str, got: Out| {
            nvar += 1;
            if got.canon_anyerr() != want {
                let class = match (out, &got) {
                    (_, Out::Panic(..)) => "panic",
                    (Out::Val(_), Out::Val(_)) => "different-values",
                    (Out::Val(_), _) => "value-becomes-failure",
                    _ => "failure-becomes-value",
                };
                found.push((
                    format!("reach|{}|{}", name, class),
                    format!("`{}` gives {} but `{}` gives {} (bindings {})", clip(src, 300), out.show(), clip(text, 400), got.show(), binds_json(binds)),
                    json!({"source": src, "variant": text, "bindings": binds_json(binds)}),
                ));
            }
        };
        let wrapped: [(&str, String); 7] = [
            ("parenthesised", format!("({})", src)),
            ("list-element", format!("[({})][0]", src)),
            ("map-value", format!("{{'k': ({})}}.k", src)),
            ("ternary-branch", format!("true ? ({}) : 0", src)),
            ("macro-body", format!("[0].map(zz_i, ({}))[0]", src)),
            ("dyn", format!("dyn(({}))", src)),
            ("nested-list-map", format!("{{'k': [({})]}}['k'][0]", src)),
        ];
        for (name, text) in wrapped.iter() {
            let got = match compile(text) {
                Ok(p) => run_prog(&p, binds),
                Err(o) => o,
            };
            judge(name, text, got);
        }
        // as a stored program referenced by name, under the same bindings
        {
            let mut c = CelContext::new();
            c.add_program("zz_p", prog.clone());
            let got = match catch(|| c.add_program_str("main", "zz_p")) {
                Ok(Ok(())) => exec_prog(&mut c, "main", &bind_ctx(binds)),
                Ok(Err(e)) => Out::Err(e),
                Err((m, l)) => Out::Panic(m, l),
            };
            judge("stored-program", "zz_p  (zz_p = the source)", got);
        }
        // the second execution in one context
        {
            let mut c = CelContext::new();
            c.add_program("main", prog.clone());
            let b = bind_ctx(binds);
            let _ = exec_prog(&mut c, "main", &b);
            let got = exec_prog(&mut c, "main", &b);
            judge("second-execution", src, got);
        }
    }
    REACH.with(|r| {
        let mut r = r.borrow_mut();
        r.busy = false;
        r.checked += 1;
        r.variants_run += nvar;
        r.pending.extend(found);
    });
}

pub fn run_prog(prog: &Program, binds: &[(String, CelValue)]) -> Out {
    let mut ctx = CelContext::new();
    ctx.add_program("main", prog.clone());
    let b = bind_ctx(binds);
    exec_prog(&mut ctx, "main", &b)
}

pub fn run_in(ctx: &mut CelContext, binds: &[(String, CelValue)]) -> Out {
    let b = bind_ctx(binds);
    exec_prog(ctx, "main", &b)
}

// ------------------------------------------------------------------------------------------
// reporter

#[derive(PartialEq, Eq, Clone, Copy, Debug)]
pub enum Tier {
    Quick,
    Thorough,
}

pub struct Rep {
    pub prop: String,
    out: File,
    pub evals: u64,
    pub counters: BTreeMap<String, u64>,
    hashes: HashSet<u64>,
    hash_cap: usize,
    pub nontrivial: u64,
    samples: Vec<Value>,
    sample_seen: u64,
    viol_counts: BTreeMap<String, u64>,
    viol_flush: BTreeMap<String, u64>,
    pub cur_stage: String,
    pub cur_idx: u64,
    sample_rng: Rng,
    journal: Option<File>,
    cur_ord: usize,
    cur_name: String,
    hashes_path: Option<String>,
    hashes_written: HashSet<u64>,
    last_flush_evals: u64,
    pub digest_acc: u64,
    digest_file: Option<std::io::BufWriter<File>>,
}

impl Rep {
    fn new(prop: &str, out: File, seed: u64, journal: Option<File>, hashes_path: Option<String>) -> Rep {
        Rep {
            journal,
            cur_ord: 0,
            cur_name: String::new(),
            hashes_path,
            hashes_written: HashSet::new(),
            last_flush_evals: 0,
            digest_acc: 0,
            digest_file: None,
            prop: prop.to_string(),
            out,
            evals: 0,
            counters: BTreeMap::new(),
            hashes: HashSet::new(),
            hash_cap: 400_000,
            nontrivial: 0,
            samples: Vec::new(),
            sample_seen: 0,
            viol_counts: BTreeMap::new(),
            viol_flush: BTreeMap::new(),
            cur_stage: String::new(),
            cur_idx: 0,
            sample_rng: Rng::new(seed ^ 0x5a5a),
        }
    }

    /// Record a violation. `sig` is the class key (sub-check + failing class), `detail` says what
    /// was observed vs expected, `case` is the fully rendered case.
    pub fn viol(&mut self, sig: &str, detail: &str, case: Value) {
        *self.viol_flush.entry(sig.to_string()).or_insert(0) += 1;
        let n = self.viol_counts.entry(sig.to_string()).or_insert(0);
        *n += 1;
        if *n <= 3 {
            let rec = json!({"t":"viol","prop":self.prop,"sig":sig,"detail":clip(detail, 2000),
                "stage":self.cur_stage,"idx":self.cur_idx,"case":case});
            let _ = writeln!(self.out, "{}", rec);
            let _ = self.out.flush();
        }
    }

    pub fn count(&mut self, key: &str) {
        *self.counters.entry(key.to_string()).or_insert(0) += 1;
    }

    pub fn add(&mut self, key: &str, n: u64) {
        *self.counters.entry(key.to_string()).or_insert(0) += n;
    }

    pub fn eval(&mut self) {
        self.evals += 1;
    }

    /// Register a case identity; `nontrivial` by the property's own rule.
    pub fn distinct(&mut self, key: &str, nontrivial: bool) {
        if !nontrivial {
            return;
        }
        let h = hash_str(key);
        if self.hashes.len() < self.hash_cap {
            if self.hashes.insert(h) {
                self.nontrivial += 1;
            }
        } else if !self.hashes.contains(&h) {
            // beyond the cap: counted separately, the driver treats it as a lower bound
            self.count("_distinct_overflow_unchecked");
        }
    }

    /// Reservoir of actual cases (kept small).
    pub fn sample(&mut self, mk: impl FnOnce() -> Value) {
        self.sample_seen += 1;
        if self.samples.len() < 6 {
            self.samples.push(mk());
        } else {
            let j = self.sample_rng.below(self.sample_seen as usize);
            if j < 6 {
                self.samples[j] = mk();
            }
        }
    }

    pub fn note(&mut self, kind: &str, text: &str) {
        let rec = json!({"t":"note","prop":self.prop,"kind":kind,"text":clip(text, 2000),
            "stage":self.cur_stage,"idx":self.cur_idx});
        let _ = writeln!(self.out, "{}", rec);
    }

    fn journal_write(&mut self, ord: usize, name: &str, idx: u64, label: &str) {
        if let Some(j) = &self.journal {
            let lab: String = label.chars().filter(|c| !c.is_whitespace()).take(40).collect();
            let s = format!("{} {} {} {}", ord, name, idx, lab);
            let mut buf = [b' '; 128];
            let n = s.len().min(127);
            buf[..n].copy_from_slice(&s.as_bytes()[..n]);
            buf[127] = b'\n';
            let _ = j.write_at(&buf, 0);
        }
    }

    /// Fold an observed outcome into the per-case digest (compared across build profiles).
    pub fn digest(&mut self, text: &str) {
        self.digest_acc = mix(&[self.digest_acc, hash_str(text)]);
    }

    fn digest_case_end(&mut self, ord: usize, idx: u64) {
        if let Some(f) = self.digest_file.as_mut() {
            let _ = writeln!(f, "{} {} {:016x}", ord, idx, self.digest_acc);
        }
        self.digest_acc = 0;
    }

    /// Label the running case in the journal (so that a crash can be attributed to a class).
    pub fn mark(&mut self, label: &str) {
        let (o, n, i) = (self.cur_ord, self.cur_name.clone(), self.cur_idx);
        self.journal_write(o, &n, i, label);
    }

    /// Write the counters accumulated since the last flush (the driver sums all stat records, so
    /// what was observed before a crash is not lost) and append new distinct-case hashes.
    pub fn flush(&mut self) {
        let viols = std::mem::take(&mut self.viol_flush);
        let rec = json!({"t":"stat","prop":self.prop,"evaluations":self.evals - self.last_flush_evals,
            "distinct_nontrivial":self.nontrivial,"counters":self.counters,
            "samples":self.samples,"viol_counts":viols});
        self.last_flush_evals = self.evals;
        self.counters.clear();
        self.samples.clear();
        self.sample_seen = 0;
        let _ = writeln!(self.out, "{}", rec);
        let _ = self.out.flush();
        if let Some(f) = self.digest_file.as_mut() {
            let _ = f.flush();
        }
        if let Some(p) = &self.hashes_path {
            if let Ok(mut f) = std::fs::OpenOptions::new().create(true).append(true).open(p) {
                let mut buf = Vec::new();
                for h in &self.hashes {
                    if self.hashes_written.insert(*h) {
                        buf.extend_from_slice(&h.to_le_bytes());
                    }
                }
                let _ = f.write_all(&buf);
            }
        }
    }
}

// ------------------------------------------------------------------------------------------
// run context: stages and cases

pub struct Ctx {
    pub prop: String,
    pub seed: u64,
    pub tier: Tier,
    pub shard: u64,
    pub nshards: u64,
    pub only: Option<(usize, u64)>,
    pub resume: Option<(usize, u64)>,
    pub args: Vec<String>,
    pub rep: Rep,
    stage_ord: usize,
    flush_each: bool,
}

impl Ctx {
    pub fn new(
        prop: &str,
        seed: u64,
        tier: Tier,
        shard: u64,
        nshards: u64,
        out: &str,
        journal: Option<&str>,
        hashes: Option<&str>,
        only: Option<(usize, u64)>,
        resume: Option<(usize, u64)>,
        args: Vec<String>,
    ) -> Ctx {
        let outf = std::fs::OpenOptions::new()
            .create(true)
            .append(true)
            .open(out)
            .expect("open out file");
        let j = journal.map(|p| {
            std::fs::OpenOptions::new()
                .create(true)
                .write(true)
                .open(p)
                .expect("open journal")
        });
        // the position-invariance monitor rides on every property whose workload evaluates plain expressions through
        // run1 (not on C01 / C12, which probe the nesting and depth limits the wrappers would push against)
        let reach_on = matches!(prop, "C02" | "C03" | "C04" | "C05" | "C06" | "C07" | "C08" | "C09" | "C13" | "C14" | "C15" | "C16") && std::env::var("RVMON_NO_REACH").is_err();
        REACH.with(|r| {
            let mut r = r.borrow_mut();
            r.enabled = reach_on;
            r.period = std::env::var("RVMON_REACH_PERIOD").ok().and_then(|v| v.parse().ok()).unwrap_or(12);
        });
        Ctx {
            prop: prop.to_string(),
            seed,
            tier,
            shard,
            nshards: nshards.max(1),
            only,
            resume,
            args,
            rep: Rep::new(prop, outf, seed, j, hashes.map(|s| s.to_string())),
            stage_ord: 0,
            flush_each: false,
        }
        .with_digest()
    }

    fn with_digest(mut self) -> Ctx {
        // `--digest FILE`: per-case outcome digests for the cross-profile comparison
        if let Some(pos) = self.args.iter().position(|a| a == "--digest") {
            if let Some(path) = self.args.get(pos + 1) {
                if let Ok(f) = std::fs::OpenOptions::new().create(true).append(true).open(path) {
                    self.rep.digest_file = Some(std::io::BufWriter::new(f));
                }
            }
        }
        self
    }

    pub fn quick(&self) -> bool {
        self.tier == Tier::Quick
    }

    /// pick a count by tier
    pub fn n(&self, quick: u64, thorough: u64) -> u64 {
        if self.quick() {
            // cheap-per-case properties get a few seconds' worth of cases in the quick tier as well
            let scale = match self.prop.as_str() {
                "C05" | "C08" | "C13" | "C14" | "C17" | "C18" | "C20" => 4,
                "C04" | "C07" | "C09" | "C10" | "C11" | "C19" => 3,
                _ => 1,
            };
            quick * scale
        } else {
            // the random stages of these properties are cheap per case: the thorough tier spends minutes, not seconds, on them
            let scale = match self.prop.as_str() {
                "C05" | "C08" | "C13" | "C17" | "C20" => 8,
                "C04" | "C09" | "C14" | "C18" | "C19" => 5,
                "C03" => 3,
                "C07" | "C15" | "C16" => 2,
                _ => 1,
            };
            thorough * scale
        }
    }

    pub fn flag(&self, name: &str) -> bool {
        self.args.iter().any(|a| a == name)
    }

    /// like `stage`, but counters are flushed after every case (for stages whose cases may kill
    /// the process)
    /// move what the position-invariance monitor found during the last case into the report
    fn drain_reach(&mut self) {
        let (pending, checked, variants) = REACH.with(|r| {
            let mut r = r.borrow_mut();
            let p = std::mem::take(&mut r.pending);
            let c = std::mem::take(&mut r.checked);
            let v = std::mem::take(&mut r.variants_run);
            (p, c, v)
        });
        if checked > 0 {
            self.rep.add("reach_sources_rechecked", checked);
            self.rep.add("reach_variants_evaluated", variants);
            self.rep.evals += variants;
        }
        for (sig, detail, case) in pending {
            self.rep.viol(&sig, &detail, case);
        }
    }

    pub fn stage_each<F>(&mut self, name: &str, total: u64, seeded: bool, f: F)
    where
        F: FnMut(u64, &mut Rng, &mut Rep),
    {
        self.flush_each = true;
        self.stage(name, total, seeded, f);
        self.flush_each = false;
    }

    /// Run the cases `0..total` of a stage that belong to this shard. Every case gets its own PRNG
    /// derived from (seed, property, stage, index), so any case can be replayed alone.
    /// `seeded=false` marks an exhaustive, seed-independent stage.
    pub fn stage<F>(&mut self, name: &str, total: u64, seeded: bool, mut f: F)
    where
        F: FnMut(u64, &mut Rng, &mut Rep),
    {
        let ord = self.stage_ord;
        self.stage_ord += 1;
        if let Some((o, _)) = self.only {
            if o != ord {
                return;
            }
        }
        let mut start = 0u64;
        if let Some((o, i)) = self.resume {
            if ord < o {
                return;
            }
            if ord == o {
                start = i + 1;
            }
        }
        self.rep.cur_stage = format!("{}:{}", ord, name);
        self.rep.cur_ord = ord;
        self.rep.cur_name = name.to_string();
        let stage_h = hash_str(name) ^ hash_str(&self.prop);
        let seed = if seeded { self.seed } else { 0 };
        let mut idx = start;
        // first index >= start in this shard's residue class
        let r = idx % self.nshards;
        if r != self.shard {
            idx += (self.shard + self.nshards - r) % self.nshards;
        }
        if let Some((_, only_idx)) = self.only {
            if only_idx < total {
                self.rep.cur_idx = only_idx;
                self.rep.journal_write(ord, name, only_idx, "");
                let mut rng = Rng::new(mix(&[seed, stage_h, only_idx]));
                f(only_idx, &mut rng, &mut self.rep);
                self.drain_reach();
                self.rep.digest_case_end(ord, only_idx);
            }
            return;
        }
        let mut ran = 0u64;
        while idx < total {
            self.rep.cur_idx = idx;
            self.rep.journal_write(ord, name, idx, "");
            let mut rng = Rng::new(mix(&[seed, stage_h, idx]));
            let t0 = std::time::Instant::now();
            f(idx, &mut rng, &mut self.rep);
            self.drain_reach();
            let dt = t0.elapsed().as_secs_f64();
            if dt > 1.0 {
                // evidence only: which cases dominate the run time (never a verdict)
                self.rep.count("_slow_cases_over_1s");
                self.rep.note("slow-case", &format!("{}:{} took {:.1}s", name, idx, dt));
            }
            self.rep.digest_case_end(ord, idx);
            ran += 1;
            idx += self.nshards;
            if self.flush_each {
                self.rep.add(&format!("stage_cases/{}", name), 1);
                self.rep.flush();
            }
        }
        if !self.flush_each {
            self.rep.add(&format!("stage_cases/{}", name), ran);
        }
        self.rep.flush();
        self.rep.journal_write(ord + 1, "-between-stages-", 0, "");
    }

    pub fn finish(mut self) {
        self.rep.flush();
    }
}
